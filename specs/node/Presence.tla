------------------------------ MODULE Presence ------------------------------
(* Presence registration of containers by the node's presence service         *)
(* (treadmill/services/presence_service.py), at ZooKeeper-call granularity.   *)
(*                                                                            *)
(* Two hosts = two services = two ZooKeeper sessions on one shared node       *)
(* table  path |-> [d (data), o (owner session, 0 = persistent)].  Successive  *)
(* containers of one instance (and a second instance) put / remove presence   *)
(* requests; every service processes its requests one at a time in the FIFO   *)
(* order of its request directory's inotify queue (services/_base_service.py, *)
(* _linux_base_service.py), a request is executed one ZooKeeper call per      *)
(* step.  At any point a service's session may expire (the service exits,     *)
(* zkutils.exit_on_lost, and is restarted with a new session and an empty     *)
(* map), or the service process may crash with its session -- and the         *)
(* session's ephemeral nodes -- lingering until the session times out while   *)
(* the restarted service already works with a new one.                        *)
(*                                                                            *)
(* EXTENSION beyond the statement of C17 (DESIGN.md 5 / 10.6; MaxKill > 0):   *)
(* the helpers of treadmill/presence.py run by an administrator or a node-    *)
(* side tool from a session of their own -- EndpointPresence.unregister_      *)
(* running / _endpoints / _identity and kill_node -- one ZooKeeper call per   *)
(* step, interleaved with everything else (section "helpers" below).  Their   *)
(* clauses (ext.kill.xxx) are conformance class, never property violations.   *)
(*                                                                            *)
(* Functional style (DESIGN.md 3.1): one state record `st`, every action is   *)
(* a guard plus a successor function taking the scenario S as a parameter, so *)
(* that PresenceTrace.tla evaluates the same operators on recorded lines.     *)
(*                                                                            *)
(* Scenario S:                                                                *)
(*   hosts  sequence of host names (host i starts with session i)             *)
(*   conts  sequence of container names, oldest first ("successive")          *)
(*   inst   container |-> instance                                            *)
(*   paths  instance |-> sequence of node paths in registration order         *)
(*          (running, endpoints..., identity)                                 *)
(*   cpaths container |-> its own such sequence, where it differs (else empty) *)
(*   retries  _EPHEMERAL_RETRY_COUNT of presence.py (register_* section)        *)
(*   data   host |-> container |-> sequence of node data (same indexing)      *)
(*   kidx   indexes of the paths presence.kill_node removes (running and      *)
(*          endpoints, not the identity)                                      *)
(*   ext    what the helpers read besides the presence nodes:                 *)
(*          srv, plc (host |-> /servers/h, /placement/h), sch (instance |->   *)
(*          /scheduled/<app>), sproot (/server.presence), sp (host |-> its    *)
(*          server presence node; empty outside the extension), iorder        *)
(*          (instances in the order get_children lists their placements),     *)
(*          fin (instance |-> /finished/<app>), plcp (host |-> instance |->   *)
(*          /placement/<host>/<app>)                                          *)
(*   defects  subset of {"olderSteals"}: behaviour of the unrepaired code     *)
(*          (see NewerKept below); {} describes the repaired behaviour.       *)
EXTENDS Naturals, Sequences, FiniteSets, TLC

CONSTANTS Hosts,       \* sequence of hosts
          Conts,       \* sequence of containers (age order)
          InstOf,      \* container -> instance
          PathsOf,     \* instance -> sequence of paths
          PerCont,     \* path indexes whose data differs per container (endpoint host:port)
          MaxExpire,   \* bound on service failures (session expiry or crash)
          MaxKill,     \* extension: bound on helper runs (kill_node / unregister_*)
          HelpKinds,   \* extension: which helpers run, subset of {"kill", "unreg"}
          MaxPub,      \* _unschedule: bound on trace events published (trace/app/zk.py)
          MaxSched,    \* _unschedule: bound on the scheduler's placement changes
          MaxReg,      \* EndpointPresence.register_*: bound on registration runs
          Retries,     \* ... and its _EPHEMERAL_RETRY_COUNT
          Ext,         \* extension: the scenario's `ext` record
          MaxPad,      \* generator only: padding steps after quiescence
          SymFirst,    \* TRUE: the first container starts on the first host (the hosts
                       \* are interchangeable: halves the exhaustive search)
          Defects

VARIABLE st

Range(s) == {s[i] : i \in DOMAIN s}

(* all orderings of a finite set, as sequences *)
Orders(X) == {s \in [1..Cardinality(X) -> X] : \A i, j \in 1..Cardinality(X) : i # j => s[i] # s[j]}

IndexIn(seq, x) == CHOOSE i \in DOMAIN seq : seq[i] = x

-----------------------------------------------------------------------------
(* scenario helpers *)
HostSet(S) == Range(S.hosts)
ContSet(S) == Range(S.conts)
(* the nodes of container c: those of its instance, unless the scenario gives  *)
(* the container a list of its own (cpaths: e.g. the instance was assigned     *)
(* another identity when it was scheduled again)                              *)
CPaths(S, c) == IF c \in DOMAIN S.cpaths THEN S.cpaths[c] ELSE S.paths[S.inst[c]]
AllPaths(S) == UNION ({Range(S.paths[a]) : a \in DOMAIN S.paths}
                      \cup {Range(S.cpaths[c]) : c \in DOMAIN S.cpaths})
Newer(S, c1, c2) == /\ S.inst[c1] = S.inst[c2]
                    /\ IndexIn(S.conts, c1) > IndexIn(S.conts, c2)

IdlePc == [ph |-> "idle", k |-> "", c |-> "", idx |-> 0, todo |-> <<>>, res |-> ""]
NoWrite == [op |-> "none", path |-> "", o |-> 0]
NoLast == [s |-> 0, rk |-> "", rc |-> "", w |-> NoWrite, regc |-> "", stole |-> FALSE,
           fsb |-> FALSE, await |-> {}, named |-> TRUE, guarded |-> TRUE]

(* helper run (extension): kind kill | unreg, host it acts for, instance      *)
(* (unreg), the calls still to make, whether nothing else happened since it   *)
(* began, the node table then and what an undisturbed run removes             *)
AdmSess == 900
(* publication of a trace event by a host (trace/app/zk.py publish): host, instance, *)
(* event type, calls still to make, what its exists() of the placement showed        *)
NoPub == [ph |-> "idle", h |-> "", a |-> "", ty |-> "", todo |-> <<>>, saw |-> FALSE]
(* registration through EndpointPresence (register_* section): session, host,   *)
(* container, which function, paths still to register, step of the retry loop,  *)
(* failed attempts on the current path, result                                  *)
NoReg == [ph |-> "idle", s |-> 0, h |-> "", c |-> "", kind |-> "", todo |-> <<>>, step |-> "",
          tries |-> 0, res |-> ""]
(* the extension's set-up (server presence nodes, /scheduled, /placement) is there *)
ExtOn(S) == DOMAIN S.ext.sp # {}
NoAdm == [ph |-> "idle", kind |-> "", h |-> "", a |-> "", todo |-> <<>>, clean |-> TRUE,
          n0 |-> {}, k0 |-> {}, seen |-> {}]   \* seen: paths whose last get showed data naming h

InitSt(S) ==
  [nodes   |-> [p \in Range(S.ext.sp) |-> [d |-> "", o |-> AdmSess + IndexIn(S.hosts,
                          CHOOSE h \in DOMAIN S.ext.sp : S.ext.sp[h] = p)]],
   sess    |-> [h \in HostSet(S) |-> IndexIn(S.hosts, h)],
   nsess   |-> Len(S.hosts) + 1,
   reg     |-> [h \in HostSet(S) |-> <<>>],       \* service map: path -> container
   rseq    |-> [h \in HostSet(S) |-> <<>>],       \* its paths in insertion order (a Python dict)
   active  |-> [h \in HostSet(S) |-> {}],         \* containers whose request exists
   queue   |-> [h \in HostSet(S) |-> <<>>],       \* pending request events <<kind, c>>
   pc      |-> [h \in HostSet(S) |-> IdlePc],     \* request in flight
   fs      |-> [h \in HostSet(S) |-> FALSE],      \* in-flight request saw a foreign owner
   own     |-> [h \in HostSet(S) |-> {}],         \* observer (trace spec only): paths the request
                                                  \* in flight has read as nodes of its own session
   watches |-> {},                                \* [h, p, c]: data watch of h's service
   claimed |-> [h \in HostSet(S) |-> <<>>],       \* path -> container entitled to the node (Claim)
   order   |-> <<>>,                              \* containers in submission order
   placed  |-> [h \in HostSet(S) |-> {}],         \* instances ever placed on the host
   where   |-> [c \in ContSet(S) |-> ""],         \* host a container was started on
   linger  |-> {},                                \* sessions of crashed services, not yet expired
   nexp    |-> 0,
   nkill   |-> 0,
   adm     |-> NoAdm,
   sch     |-> [a \in DOMAIN S.paths |-> ExtOn(S)],  \* /scheduled/<app> exists
   plc     |-> [a \in DOMAIN S.paths |-> {}],     \* servers the scheduler placed the instance on
   proot   |-> ExtOn(S),                          \* /placement exists
   fin     |-> [a \in DOMAIN S.paths |-> FALSE],  \* /finished/<app> exists
   pub     |-> NoPub,                             \* trace event being published
   npub    |-> 0,
   rrun    |-> NoReg,                             \* EndpointPresence.register_* run in flight
   regd    |-> {},                                \* [s, h, c]: runs that reported success, session alive
   nreg    |-> 0,
   nsch    |-> 0,
   pad     |-> 0,
   last    |-> NoLast]                            \* what the last step did (step invariants)

HasNode(st_, p) == p \in DOMAIN st_.nodes
Drop(f, p) == [q \in DOMAIN f \ {p} |-> f[q]]
Put(f, p, v) == (p :> v) @@ f

Submitted(st_) == Range(st_.order)
Quiescent(S, st_) ==
  /\ Submitted(st_) = ContSet(S)
  /\ st_.linger = {}
  /\ st_.adm.ph = "idle"
  /\ st_.pub.ph = "idle"
  /\ st_.rrun.ph = "idle"
  /\ \A h \in HostSet(S) : st_.active[h] = {} /\ st_.queue[h] = <<>> /\ st_.pc[h].ph = "idle"

-----------------------------------------------------------------------------
(* Environment: a container's runtime puts its presence request on its host   *)
(* (ResourceServiceClient.put -> CREATED event), later removes it             *)
(* (ResourceServiceClient.delete -> DELETED event).                           *)
CanSubmit(S, st_, h, c) ==
  /\ st_.pc[h].ph # "down"
  /\ c \in ContSet(S) \ Submitted(st_)
  /\ \A c0 \in ContSet(S) : Newer(S, c, c0) => c0 \in Submitted(st_)

SubmitDo(S, st_, h, c) ==
  [st_ EXCEPT !.active[h] = @ \cup {c},
              !.queue[h] = Append(@, <<"create", c>>),
              !.order = Append(@, c),
              !.placed[h] = @ \cup {S.inst[c]},
              !.where[c] = h,
              !.last = NoLast]

CanFinish(S, st_, h, c) == st_.pc[h].ph # "down" /\ c \in st_.active[h]

FinishDo(S, st_, h, c) ==
  [st_ EXCEPT !.active[h] = @ \ {c},
              !.queue[h] = Append(@, <<"delete", c>>),
              !.last = NoLast]

-----------------------------------------------------------------------------
(* Repaired behaviour only: a path registered to another container whose      *)
(* request still exists is left alone by an older container of the instance,  *)
(* and by a container whose own request has been removed meanwhile.           *)
HeldByNewer(S, st_, h, c, p) ==
  /\ "olderSteals" \notin S.defects
  /\ p \in DOMAIN st_.reg[h]
  /\ st_.reg[h][p] # c
  /\ st_.reg[h][p] \in st_.active[h]
  /\ (c \notin st_.active[h] \/ Newer(S, st_.reg[h][p], c))

(* pc of create request c at the first path with index >= k it has to handle *)
CreatePc(S, st_, h, c, k) ==
  LET ps == CPaths(S, c)
      todo == {j \in k..Len(ps) : ~HeldByNewer(S, st_, h, c, ps[j])} IN
  IF todo = {}
  THEN [IdlePc EXCEPT !.ph = "end", !.k = "create", !.c = c, !.res = "ok"]
  ELSE [IdlePc EXCEPT !.ph = "create", !.k = "create", !.c = c,
                      !.idx = CHOOSE j \in todo : \A j2 \in todo : j <= j2]

(* The service's main loop takes the next event of its queue.                 *)
CanBegin(S, st_, h) == st_.pc[h].ph = "idle" /\ st_.queue[h] # <<>>

BeginDo(S, st_, h) ==
  LET e == Head(st_.queue[h])
      c == e[2]
      ps == CPaths(S, c)
      todo == SelectSeq(st_.rseq[h], LAMBDA p : p \in Range(ps) /\ st_.reg[h][p] = c)
      pc == IF e[1] = "create"
            THEN IF c \in st_.active[h]
                 THEN CreatePc(S, st_, h, c, 1)
                 ELSE [IdlePc EXCEPT !.ph = "end", !.k = "create", !.c = c, !.res = "gone"]
            ELSE IF todo = <<>>
                 THEN [IdlePc EXCEPT !.ph = "end", !.k = "delete", !.c = c, !.res = "ok"]
                 ELSE [IdlePc EXCEPT !.ph = "dget", !.k = "delete", !.c = c, !.todo = todo] IN
  [st_ EXCEPT !.queue[h] = Tail(@), !.pc[h] = pc, !.fs[h] = FALSE, !.last = NoLast]

CanEnd(S, st_, h) == st_.pc[h].ph = "end"
EndDo(S, st_, h) == [st_ EXCEPT !.pc[h] = IdlePc, !.fs[h] = FALSE, !.last = NoLast]

-----------------------------------------------------------------------------
(* One ZooKeeper call of the request in flight on h.                          *)
InCall(st_, h) == st_.pc[h].ph \in {"create", "get", "set", "watch", "dget", "dkids", "ddel"}

CurPath(S, st_, h) ==
  LET pc == st_.pc[h] IN
  IF pc.k = "create" THEN CPaths(S, pc.c)[pc.idx] ELSE Head(pc.todo)

CurData(S, st_, h) == LET pc == st_.pc[h] IN S.data[h][pc.c][pc.idx]

(* containers whose request set a data watch on p (a container runs on one    *)
(* host and its request has at most one watch at a time)                      *)
Watchers(st_, p) == {w.c : w \in {x \in st_.watches : x.p = p}}

(* what the call is and how ZooKeeper answers it: [op, path, res] *)
CallDesc(S, st_, h) ==
  LET pc == st_.pc[h]
      p == CurPath(S, st_, h)
      ex == HasNode(st_, p) IN
  CASE pc.ph = "create" -> [op |-> "create", path |-> p, res |-> IF ex THEN "NodeExists" ELSE "ok"]
    [] pc.ph = "get"    -> [op |-> "get", path |-> p, res |-> IF ex THEN "ok" ELSE "NoNode"]
    [] pc.ph = "set"    -> [op |-> "set", path |-> p, res |-> IF ex THEN "ok" ELSE "NoNode"]
    [] pc.ph = "watch"  -> [op |-> "watch", path |-> p, res |-> "ok"]
    [] pc.ph = "dget"   -> [op |-> "get", path |-> p, res |-> IF ex THEN "ok" ELSE "NoNode"]
    [] pc.ph = "dkids"  -> [op |-> "get_children", path |-> p, res |-> IF ex THEN "ok" ELSE "NoNode"]
    [] pc.ph = "ddel"   -> [op |-> "delete", path |-> p, res |-> IF ex THEN "ok" ELSE "NoNode"]

(* retry_request calls caused by the call (named by container), in every      *)
(* order they may arrive in (watch callbacks of one path are dispatched in no *)
(* particular order).                                                         *)
FireOrders(S, st_, h) ==
  LET pc == st_.pc[h]
      p == CurPath(S, st_, h) IN
  IF pc.ph \in {"get", "watch"} /\ ~HasNode(st_, p) THEN {<<pc.c>>}
  ELSE IF pc.ph = "ddel" /\ HasNode(st_, p) THEN Orders(Watchers(st_, p))
  ELSE {<<>>}

(* touch of the request links (retry_request) in the order ord: a MODIFIED    *)
(* event per request that still exists.                                       *)
RECURSIVE Touches(_, _, _)
Touches(st_, h, ord) ==
  IF ord = <<>> THEN <<>>
  ELSE (IF st_.where[Head(ord)] = h /\ Head(ord) \in st_.active[h]
        THEN << <<"create", Head(ord)>> >> ELSE <<>>) \o Touches(st_, h, Tail(ord))

Fire(S, st_, ord) ==
  [st_ EXCEPT !.queue = [h \in HostSet(S) |-> st_.queue[h] \o Touches(st_, h, ord)],
              !.watches = {w \in @ : w.c \notin Range(ord)}]

(* History variable for NewerKept: the container entitled to the node p of    *)
(* this service.  A container that registers p becomes entitled to it, unless *)
(* p is held by a more recent container of the instance whose request still   *)
(* exists: then the older one merely "steals" the registration.               *)
Claim(S, st_, h, p, c) ==
  LET cl == st_.claimed[h] IN
  IF p \in DOMAIN cl /\ cl[p] # c /\ cl[p] \in st_.active[h] /\ Newer(S, cl[p], c)
  THEN cl ELSE Put(cl, p, c)

Stolen(S, st_, h, p, c) ==
  LET cl == st_.claimed[h] IN
  p \in DOMAIN cl /\ cl[p] # c /\ cl[p] \in st_.active[h] /\ Newer(S, cl[p], c)

DropAll(f, ps) == [q \in DOMAIN f \ ps |-> f[q]]

(* after the current path of a create request is done (registered)            *)
Registered(S, st_, h) ==
  LET pc == st_.pc[h]
      p == CurPath(S, st_, h)
      s1 == [st_ EXCEPT !.reg[h] = Put(@, p, pc.c), !.claimed[h] = Claim(S, st_, h, p, pc.c),
                        !.rseq[h] = IF p \in DOMAIN st_.reg[h] THEN @ ELSE Append(@, p)] IN
  [s1 EXCEPT !.pc[h] = CreatePc(S, s1, h, pc.c, pc.idx + 1)]

(* after the current path of a delete request is done (forgotten)             *)
Forgotten(S, st_, h) ==
  LET pc == st_.pc[h]
      p == Head(pc.todo)
      rest == Tail(pc.todo) IN
  [st_ EXCEPT !.reg[h] = Drop(@, p),
              !.rseq[h] = SelectSeq(@, LAMBDA q : q # p),
              !.pc[h] = IF rest = <<>> THEN [pc EXCEPT !.ph = "end", !.res = "ok", !.todo = <<>>]
                        ELSE [pc EXCEPT !.ph = "dget", !.todo = rest]]

EndWait(st_, h) == [st_ EXCEPT !.pc[h] = [@ EXCEPT !.ph = "end", !.res = "wait"]]

CallDo(S, st_, h, ord) ==
  LET pc == st_.pc[h]
      p == CurPath(S, st_, h)
      me == st_.sess[h]
      ex == HasNode(st_, p)
      own == IF ex THEN st_.nodes[p].o ELSE 0
      base == [NoLast EXCEPT !.s = me, !.rk = pc.k, !.rc = pc.c, !.fsb = st_.fs[h]]
      s0 == [st_ EXCEPT !.last = base] IN
  CASE pc.ph = "create" ->
         IF ex THEN [s0 EXCEPT !.pc[h].ph = "get"]
         ELSE Registered(S, [s0 EXCEPT !.nodes = Put(@, p, [d |-> CurData(S, st_, h), o |-> me]),
                                       !.last.w = [op |-> "create", path |-> p, o |-> 0]], h)
    [] pc.ph = "get" ->
         IF ~ex THEN Fire(S, EndWait([s0 EXCEPT !.last.await = {p}], h), ord)
         ELSE IF own # me THEN [s0 EXCEPT !.pc[h].ph = "watch", !.fs[h] = TRUE]
         ELSE IF st_.nodes[p].d # CurData(S, st_, h) THEN [s0 EXCEPT !.pc[h].ph = "set"]
         ELSE Registered(S, s0, h)
    [] pc.ph = "set" ->
         IF ~ex THEN [s0 EXCEPT !.pc[h] = [@ EXCEPT !.ph = "end", !.res = "error:NoNodeError"]]
         ELSE Registered(S, [s0 EXCEPT !.nodes[p].d = CurData(S, st_, h),
                                       !.last.w = [op |-> "set", path |-> p, o |-> own]], h)
    [] pc.ph = "watch" ->
         IF ~ex THEN Fire(S, EndWait([s0 EXCEPT !.last.await = {p}], h), ord)
         ELSE EndWait([s0 EXCEPT !.watches = @ \cup {[h |-> h, p |-> p, c |-> pc.c]}], h)
    [] pc.ph = "dget" ->
         IF ~ex THEN Forgotten(S, s0, h)
         ELSE IF own = me THEN [s0 EXCEPT !.pc[h].ph = "dkids"]
         ELSE Forgotten(S, [s0 EXCEPT !.fs[h] = TRUE], h)
    [] pc.ph = "dkids" ->
         IF ~ex THEN Forgotten(S, s0, h) ELSE [s0 EXCEPT !.pc[h].ph = "ddel"]
    [] pc.ph = "ddel" ->
         IF ~ex THEN Forgotten(S, s0, h)
         ELSE LET regc == IF p \in DOMAIN st_.reg[h] THEN st_.reg[h][p] ELSE ""
                  stole == Stolen(S, st_, h, p, pc.c)
                  s1 == [s0 EXCEPT !.nodes = Drop(@, p),
                                   !.claimed = [h2 \in HostSet(S) |-> DropAll(@[h2], {p})],
                                   !.last.w = [op |-> "delete", path |-> p, o |-> own],
                                   !.last.regc = regc, !.last.stole = stole,
                                   !.last.await = IF ord = <<>> THEN {} ELSE {p}] IN
              Fire(S, Forgotten(S, s1, h), ord)

-----------------------------------------------------------------------------
(* Session expiry of h's service.  Atomic with the service's exit            *)
(* (zkutils.exit_on_lost): the request in flight is abandoned, the session's  *)
(* ephemeral nodes vanish, data watches of the other services on them fire    *)
(* (in the order `word`).  The service is then restarted with a new session,  *)
(* an empty map and no watches, and re-reads the requests that exist in the   *)
(* order glob() lists them (`rord`: any order).  Nothing happens on the host  *)
(* between the two steps; the other host goes on.                             *)
Gone(st_, h) == {p \in DOMAIN st_.nodes : st_.nodes[p].o = st_.sess[h]}

ExpireFired(st_, h) ==
  UNION {{c \in Watchers(st_, p) : st_.where[c] # h} : p \in Gone(st_, h)}

CanExpire(S, st_, h, word) ==
  /\ st_.nexp < MaxExpire
  /\ st_.pc[h].ph # "down"
  /\ ~Quiescent(S, st_)
  /\ word \in Orders(ExpireFired(st_, h))

ExpireDo(S, st_, h, word) ==
  LET gone == Gone(st_, h)
      s1 == [st_ EXCEPT !.nodes = [q \in DOMAIN st_.nodes \ gone |-> st_.nodes[q]],
                        !.claimed = [h2 \in HostSet(S) |-> DropAll(@[h2], gone)],
                        !.watches = {w \in @ : w.h # h},
                        !.sess[h] = 0,
                        !.reg[h] = <<>>,
                        !.rseq[h] = <<>>,
                        !.pc[h] = [IdlePc EXCEPT !.ph = "down"],
                        !.fs[h] = FALSE,
                        !.nexp = @ + 1,
                        !.last = [NoLast EXCEPT !.await = IF word = <<>> THEN {} ELSE gone]]
      s2 == Fire(S, s1, word) IN
  [s2 EXCEPT !.queue[h] = <<>>]

CanRestart(S, st_, h, rord) == st_.pc[h].ph = "down" /\ rord \in Orders(st_.active[h])

RestartDo(S, st_, h, rord) ==
  [st_ EXCEPT !.sess[h] = st_.nsess,
              !.nsess = @ + 1,
              !.pc[h] = IdlePc,
              !.queue[h] = [i \in 1..Len(rord) |-> <<"create", rord[i]>>],
              !.last = NoLast]

(* The service process dies without closing its session (kill -9, lost zkid   *)
(* file): the request in flight is abandoned, the map and the watches are     *)
(* gone, but the session and its ephemeral nodes linger until the session     *)
(* times out (Reap); the restarted service has a new session meanwhile.       *)
CanCrash(S, st_, h) ==
  /\ st_.nexp < MaxExpire
  /\ st_.pc[h].ph # "down"
  /\ ~Quiescent(S, st_)

CrashDo(S, st_, h) ==
  [st_ EXCEPT !.linger = @ \cup {st_.sess[h]},
              !.watches = {w \in @ : w.h # h},
              !.sess[h] = 0,
              !.reg[h] = <<>>,
              !.rseq[h] = <<>>,
              !.claimed[h] = <<>>,
              !.pc[h] = [IdlePc EXCEPT !.ph = "down"],
              !.fs[h] = FALSE,
              !.queue[h] = <<>>,
              !.nexp = @ + 1,
              !.last = NoLast]

SessNodes(st_, s) == {p \in DOMAIN st_.nodes : st_.nodes[p].o = s}
FiredOn(st_, ps) == UNION {Watchers(st_, p) : p \in ps}

CanReap(S, st_, s, word) == s \in st_.linger /\ word \in Orders(FiredOn(st_, SessNodes(st_, s)))

(* removal of the nodes ps by someone who is no presence service *)
Vanish(S, st_, ps, word) ==
  Fire(S, [st_ EXCEPT !.nodes = [q \in DOMAIN st_.nodes \ ps |-> st_.nodes[q]],
                      !.claimed = [h2 \in HostSet(S) |-> DropAll(@[h2], ps)],
                      !.last = [NoLast EXCEPT !.await = IF word = <<>> THEN {} ELSE ps]],
       word)

ReapDo(S, st_, s, word) ==
  [Vanish(S, st_, SessNodes(st_, s), word) EXCEPT !.linger = @ \ {s},
                                                  !.regd = {r \in @ : r.s # s}]

(* Helpers of treadmill/presence.py (extension).                              *)
(*                                                                            *)
(* kill_node(h) (cli/admin/blackout.py), in this order: get /servers/h;       *)
(* get_children /placement/h; for every instance placed there, in listing     *)
(* order: get /scheduled/<app>, unregister_running, unregister_endpoints      *)
(* (NOT the identity); then unregister_server: get_children /server.presence, *)
(* ensure_deleted (get_children, delete) of h's server presence node.         *)
(* unregister_running / _endpoints: get; delete only if the node's DATA names *)
(* the host; unregister_identity: get; data.host names the host =>            *)
(* ensure_deleted.  A node that is missing is skipped.  Nothing is versioned: *)
(* the delete hits whatever is at the path by then (ext.kill.window).         *)
WrittenBy(S, h, p, d) ==
  \E c \in ContSet(S) : \E k \in DOMAIN CPaths(S, c) : CPaths(S, c)[k] = p /\ S.data[h][c][k] = d

Item(t, p) == [t |-> t, p |-> p]

(* running and endpoint paths of instance a, in the order the helpers visit them *)
ChkSeq(S, a) ==
  LET ks == SelectSeq([k \in 1..Len(S.paths[a]) |-> k], LAMBDA k : k \in S.kidx) IN
  [i \in 1..Len(ks) |-> Item("chk", S.paths[a][ks[i]])]
IdSeq(S, a) ==
  LET ks == SelectSeq([k \in 1..Len(S.paths[a]) |-> k], LAMBDA k : k \notin S.kidx) IN
  [i \in 1..Len(ks) |-> Item("ichk", S.paths[a][ks[i]])]

RECURSIVE AppItems(_, _)
AppItems(S, apps) ==
  IF apps = <<>> THEN <<>>
  ELSE <<Item("get0", S.ext.sch[Head(apps)])>> \o ChkSeq(S, Head(apps)) \o AppItems(S, Tail(apps))

NamesHost(S, st_, h, p) ==
  p \in DOMAIN st_.nodes /\ (WrittenBy(S, h, p, st_.nodes[p].d) \/ (h \in DOMAIN S.ext.sp /\ S.ext.sp[h] = p))

(* what an undisturbed kill_node(h) removes *)
KillSet(S, st_, h) ==
  {p \in DOMAIN st_.nodes :
     \/ /\ \E a \in st_.placed[h] : \E k \in S.kidx \cap DOMAIN S.paths[a] : S.paths[a][k] = p
        /\ WrittenBy(S, h, p, st_.nodes[p].d)
     \/ h \in DOMAIN S.ext.sp /\ S.ext.sp[h] = p}

(* what an undisturbed unregister_running/_endpoints/_identity of a for h removes *)
UnregSet(S, st_, h, a) ==
  {p \in DOMAIN st_.nodes \cap Range(S.paths[a]) : WrittenBy(S, h, p, st_.nodes[p].d)}

CanHelp(S, st_) == st_.adm.ph = "idle" /\ st_.nkill < MaxKill /\ ~Quiescent(S, st_)

KillBeginDo(S, st_, h) ==
  [st_ EXCEPT !.adm = [NoAdm EXCEPT !.ph = "run", !.kind = "kill", !.h = h,
                                    !.todo = <<Item("get0", S.ext.srv[h]), Item("plc", S.ext.plc[h])>>,
                                    !.n0 = DOMAIN st_.nodes, !.k0 = KillSet(S, st_, h)],
              !.nkill = @ + 1, !.last = NoLast]

UnregBeginDo(S, st_, h, a) ==
  [st_ EXCEPT !.adm = [NoAdm EXCEPT !.ph = "run", !.kind = "unreg", !.h = h, !.a = a,
                                    !.todo = ChkSeq(S, a) \o IdSeq(S, a),
                                    !.n0 = DOMAIN st_.nodes, !.k0 = UnregSet(S, st_, h, a)],
              !.nkill = @ + 1, !.last = NoLast]

InACall(st_) == st_.adm.ph = "run" /\ st_.adm.todo # <<>>

ACallDesc(S, st_) ==
  LET it == Head(st_.adm.todo)
      ex == it.p \in DOMAIN st_.nodes
      dyn == IF ex THEN "ok" ELSE "NoNode" IN
  CASE it.t = "get0"   -> [op |-> "get", path |-> it.p, res |-> "ok"]
    [] it.t = "plc"    -> [op |-> "get_children", path |-> it.p, res |-> "ok"]
    [] it.t = "sproot" -> [op |-> "get_children", path |-> it.p, res |-> "ok"]
    [] it.t = "chk"    -> [op |-> "get", path |-> it.p, res |-> dyn]
    [] it.t = "ichk"   -> [op |-> "get", path |-> it.p, res |-> dyn]
    [] it.t = "ikids"  -> [op |-> "get_children", path |-> it.p, res |-> dyn]
    [] it.t = "del"    -> [op |-> "delete", path |-> it.p, res |-> dyn]

AFireOrders(S, st_) ==
  LET it == Head(st_.adm.todo) IN
  IF it.t = "del" /\ it.p \in DOMAIN st_.nodes THEN Orders(Watchers(st_, it.p)) ELSE {<<>>}

ACallDo(S, st_, ord) ==
  LET adm == st_.adm
      h == adm.h
      it == Head(adm.todo)
      rest == Tail(adm.todo)
      ex == it.p \in DOMAIN st_.nodes
      s0 == [st_ EXCEPT !.last = [NoLast EXCEPT !.s = AdmSess, !.rk = adm.kind, !.rc = h]]
      go(todo) == [s0 EXCEPT !.adm.todo = todo] IN
  CASE it.t = "get0" -> go(rest)
    [] it.t = "plc" ->
         go(AppItems(S, SelectSeq(S.ext.iorder, LAMBDA a : a \in st_.placed[h]))
            \o <<Item("sproot", S.ext.sproot)>> \o rest)
    [] it.t = "sproot" ->
         go((IF h \in DOMAIN S.ext.sp /\ S.ext.sp[h] \in DOMAIN st_.nodes
             THEN <<Item("ikids", S.ext.sp[h]), Item("del", S.ext.sp[h])>> ELSE <<>>) \o rest)
    [] it.t = "chk" ->
         IF NamesHost(S, st_, h, it.p)
         THEN [go(<<Item("del", it.p)>> \o rest) EXCEPT !.adm.seen = @ \cup {it.p}]
         ELSE [go(rest) EXCEPT !.adm.seen = @ \ {it.p}]
    [] it.t = "ichk" ->
         IF NamesHost(S, st_, h, it.p)
         THEN [go(<<Item("ikids", it.p), Item("del", it.p)>> \o rest) EXCEPT !.adm.seen = @ \cup {it.p}]
         ELSE [go(rest) EXCEPT !.adm.seen = @ \ {it.p}]
    [] it.t = "ikids" -> go(IF ex THEN rest ELSE Tail(rest))
    [] it.t = "del" ->
         IF ~ex THEN go(rest)
         ELSE Fire(S, [s0 EXCEPT !.adm.todo = rest,
                                 !.nodes = Drop(@, it.p),
                                 !.claimed = [h2 \in HostSet(S) |-> DropAll(@[h2], {it.p})],
                                 !.last.w = [op |-> "delete", path |-> it.p, o |-> st_.nodes[it.p].o],
                                 !.last.named = NamesHost(S, st_, h, it.p),
                                 !.last.guarded = it.p \in adm.seen \/ it.p \notin AllPaths(S),
                                 !.last.await = IF ord = <<>> THEN {} ELSE {it.p}], ord)

CanAEnd(st_) == st_.adm.ph = "run" /\ st_.adm.todo = <<>>
AEndDo(st_) == [st_ EXCEPT !.adm = NoAdm, !.last = NoLast]

(* anything else that happens while a helper runs disturbs it *)
Dirty(st_) == IF st_.adm.ph = "idle" THEN st_
              ELSE [st_ EXCEPT !.adm.clean = FALSE, !.adm.n0 = {}, !.adm.k0 = {}]

-----------------------------------------------------------------------------------------------------------------------------------------------------
(* trace/app/zk.py: publish() and _unschedule().  A host publishes the trace  *)
(* events of its containers from a session of its own: create the event node; *)
(* for a terminal event (finished / killed / aborted) also put                *)
(* /finished/<app> (create, or set + set_acls), then _unschedule: exists      *)
(* /placement/<publishing host>/<app>; only if it does: ensure_deleted        *)
(* /scheduled/<app> (get_children, delete).  The placement is the scheduler's: *)
(* an instance is placed on a server, withdrawn (placed nowhere until the next *)
(* cycle), placed on another one; /placement itself may be missing.           *)
Terminal == {"finished", "killed", "aborted"}
EventTypes == Terminal \cup {"configured"}
PubSess(S, h) == 950 + IndexIn(S.hosts, h)
PlcNode(st_, h, a) == h \in st_.plc[a] \/ a \in st_.placed[h]

CanPlace(S, st_, a, h) == st_.nsch < MaxSched /\ h \notin st_.plc[a]
PlaceDo(S, st_, a, h) ==
  [st_ EXCEPT !.plc[a] = @ \cup {h}, !.proot = TRUE, !.nsch = @ + 1, !.last = NoLast]
CanWithdraw(S, st_, a, h) == st_.nsch < MaxSched /\ h \in st_.plc[a]
WithdrawDo(S, st_, a, h) == [st_ EXCEPT !.plc[a] = @ \ {h}, !.nsch = @ + 1, !.last = NoLast]
CanRmRoot(S, st_) ==
  /\ st_.nsch < MaxSched /\ st_.proot
  /\ \A a \in DOMAIN S.paths : st_.plc[a] = {}
  /\ \A h \in HostSet(S) : st_.placed[h] = {}
RmRootDo(S, st_) == [st_ EXCEPT !.proot = FALSE, !.nsch = @ + 1, !.last = NoLast]

CanPub(S, st_) == st_.pub.ph = "idle" /\ st_.npub < MaxPub
PubBeginDo(S, st_, h, a, ty) ==
  [st_ EXCEPT !.pub = [NoPub EXCEPT !.ph = "run", !.h = h, !.a = a, !.ty = ty,
                         !.todo = <<Item("ptrace", "")>> \o
                                  (IF ty \in Terminal
                                   THEN <<Item("pfin", S.ext.fin[a]), Item("pex", S.ext.plcp[h][a])>>
                                   ELSE <<>>)],
              !.npub = @ + 1, !.last = NoLast]

InPCall(st_) == st_.pub.ph = "run" /\ st_.pub.todo # <<>>

(* [op, kind, path, res, found]: kind trace | finished | placement | scheduled *)
PCallDesc(S, st_) ==
  LET it == Head(st_.pub.todo)
      a == st_.pub.a
      d(op, kind, res, found) == [op |-> op, kind |-> kind, path |-> it.p, res |-> res, found |-> found] IN
  CASE it.t = "ptrace" -> d("create", "trace", "ok", FALSE)
    [] it.t = "pfin"   -> d("create", "finished", IF st_.fin[a] THEN "NodeExists" ELSE "ok", FALSE)
    [] it.t = "pfset"  -> d("set", "finished", "ok", FALSE)
    [] it.t = "pfacl"  -> d("set_acls", "finished", "ok", FALSE)
    [] it.t = "pex"    -> d("exists", "placement", "ok", PlcNode(st_, st_.pub.h, a))
    [] it.t = "pkids"  -> d("get_children", "scheduled", IF st_.sch[a] THEN "ok" ELSE "NoNode", FALSE)
    [] it.t = "pdel"   -> d("delete", "scheduled", IF st_.sch[a] THEN "ok" ELSE "NoNode", FALSE)

PCallDo(S, st_) ==
  LET pub == st_.pub
      h == pub.h
      a == pub.a
      it == Head(pub.todo)
      rest == Tail(pub.todo)
      s0 == [st_ EXCEPT !.last = [NoLast EXCEPT !.s = PubSess(S, h), !.rk = "publish", !.rc = h]]
      go(todo) == [s0 EXCEPT !.pub.todo = todo]
      here == PlcNode(st_, h, a)
      nowhere == \A h2 \in HostSet(S) : ~PlcNode(st_, h2, a) IN
  CASE it.t = "ptrace" -> go(rest)
    [] it.t = "pfin" ->
         IF st_.fin[a] THEN go(<<Item("pfset", it.p), Item("pfacl", it.p)>> \o rest)
         ELSE [go(rest) EXCEPT !.fin[a] = TRUE]
    [] it.t \in {"pfset", "pfacl"} -> go(rest)
    [] it.t = "pex" ->
         [go((IF here \/ ("unschedNowhere" \in S.defects /\ nowhere)
              THEN <<Item("pkids", S.ext.sch[a]), Item("pdel", S.ext.sch[a])>> ELSE <<>>) \o rest)
          EXCEPT !.pub.saw = here]
    [] it.t = "pkids" -> go(IF st_.sch[a] THEN rest ELSE Tail(rest))
    [] it.t = "pdel" ->
         IF ~st_.sch[a] THEN go(rest)
         ELSE [go(rest) EXCEPT !.sch[a] = FALSE,
                               !.last.w = [op |-> "delete", path |-> it.p, o |-> 0],
                               !.last.guarded = pub.saw,
                               !.last.named = here]

CanPEnd(st_) == st_.pub.ph = "run" /\ st_.pub.todo = <<>>
PEndDo(st_) == [st_ EXCEPT !.pub = NoPub, !.last = NoLast]

-----------------------------------------------------------------------------
(* presence.py: EndpointPresence.register() / register_identity / _running /  *)
(* _endpoints -- the registration path that does not go through the presence  *)
(* service (docker runtime).  Each node through _create_ephemeral_with_retry:  *)
(* up to `retries` times: create(ephemeral); NodeExists => get, sleep; then     *)
(* ContainerSetupError.  It WAITS until it can own the node: an existing node   *)
(* -- even one with identical data, left by a previous, still alive session of  *)
(* the same host -- is never taken for registered.  A run has a session of its  *)
(* own (RegSess); when it has ended the session lives on (linger) until Reap.   *)
RegSess(n) == 800 + n
RegKinds == {"all", "identity", "running", "endpoints"}
RegPaths(S, c, kind) ==
  LET ps == CPaths(S, c)
      ks == [k \in 1..Len(ps) |-> k]
      ids == SelectSeq(ks, LAMBDA k : k \notin S.kidx)
      run == SelectSeq(ks, LAMBDA k : k = 1)
      eps == SelectSeq(ks, LAMBDA k : k \in S.kidx /\ k # 1)
      sel == CASE kind = "all" -> ids \o run \o eps
               [] kind = "identity" -> ids
               [] kind = "running" -> run
               [] kind = "endpoints" -> eps IN
  [i \in 1..Len(sel) |-> sel[i]]            \* indexes into CPaths(S, c), in registration order

CanReg(S, st_) == st_.rrun.ph = "idle" /\ st_.nreg < MaxReg
RegStart(S, st_, c, todo) ==
  IF todo = <<>> THEN [ph |-> "end", res |-> "ok"] ELSE [ph |-> "run", res |-> ""]
RegBeginDo(S, st_, h, c, kind) ==
  LET todo == RegPaths(S, c, kind) IN
  [st_ EXCEPT !.rrun = [NoReg EXCEPT !.ph = RegStart(S, st_, c, todo).ph, !.res = RegStart(S, st_, c, todo).res,
                                     !.s = RegSess(st_.nreg + 1), !.h = h, !.c = c, !.kind = kind,
                                     !.todo = todo, !.step = "create"],
              !.nreg = @ + 1, !.last = NoLast]

InRCall(st_) == st_.rrun.ph = "run"
RegPath(S, st_) == CPaths(S, st_.rrun.c)[Head(st_.rrun.todo)]
RegData(S, st_) == S.data[st_.rrun.h][st_.rrun.c][Head(st_.rrun.todo)]

RCallDesc(S, st_) ==
  LET r == st_.rrun
      p == RegPath(S, st_)
      ex == p \in DOMAIN st_.nodes IN
  CASE r.step = "create" -> [op |-> "create", path |-> p, res |-> IF ex THEN "NodeExists" ELSE "ok"]
    [] r.step = "get"    -> [op |-> "get", path |-> p, res |-> IF ex THEN "ok" ELSE "NoNode"]
    [] r.step = "sleep"  -> [op |-> "sleep", path |-> "", res |-> "ok"]

RCallDo(S, st_) ==
  LET r == st_.rrun
      p == RegPath(S, st_)
      ex == p \in DOMAIN st_.nodes
      s0 == [st_ EXCEPT !.last = [NoLast EXCEPT !.s = r.s, !.rk = "register", !.rc = r.c]]
      nextpath(s1) == IF Tail(r.todo) = <<>>
                      THEN [s1 EXCEPT !.rrun = [@ EXCEPT !.ph = "end", !.res = "ok", !.todo = <<>>]]
                      ELSE [s1 EXCEPT !.rrun = [@ EXCEPT !.todo = Tail(r.todo), !.step = "create", !.tries = 0]] IN
  CASE r.step = "create" ->
         IF ex THEN [s0 EXCEPT !.rrun.step = "get"]
         ELSE nextpath([s0 EXCEPT !.nodes = Put(@, p, [d |-> RegData(S, st_), o |-> r.s]),
                                  !.last.w = [op |-> "create", path |-> p, o |-> 0]])
    [] r.step = "get" ->
         IF "sameDataOk" \in S.defects /\ ex /\ st_.nodes[p].d = RegData(S, st_)
         THEN nextpath(s0)
         ELSE [s0 EXCEPT !.rrun.step = "sleep"]
    [] r.step = "sleep" ->
         IF r.tries + 1 >= S.retries
         THEN [s0 EXCEPT !.rrun = [@ EXCEPT !.ph = "end", !.res = "abort"]]
         ELSE [s0 EXCEPT !.rrun = [@ EXCEPT !.step = "create", !.tries = @ + 1]]

CanREnd(st_) == st_.rrun.ph = "end"
REndDo(st_) ==
  [st_ EXCEPT !.rrun = NoReg, !.linger = @ \cup {st_.rrun.s},
              !.regd = IF st_.rrun.res = "ok"
                       THEN @ \cup {[s |-> st_.rrun.s, h |-> st_.rrun.h, c |-> st_.rrun.c, kind |-> st_.rrun.kind]}
                       ELSE @,
              !.last = NoLast]

-----
Scn == [hosts |-> Hosts, conts |-> Conts, inst |-> InstOf, paths |-> PathsOf,
        defects |-> Defects, kidx |-> {1} \cup PerCont, ext |-> Ext, cpaths |-> <<>>,
        retries |-> Retries,
        data |-> [h \in Range(Hosts) |-> [c \in Range(Conts) |->
                    [k \in 1..Len(PathsOf[InstOf[c]]) |->
                        IF k \in PerCont THEN <<h, c>> ELSE <<h>>]]]]

Init == st = InitSt(Scn)

Submit(h, c) == /\ MaxReg = 0       \* (register_* configuration: no presence service requests)
                /\ CanSubmit(Scn, st, h, c)
                /\ (SymFirst /\ st.order = <<>> => h = Hosts[1])
                /\ st' = Dirty(SubmitDo(Scn, st, h, c))
Finish(h, c) == CanFinish(Scn, st, h, c) /\ st' = Dirty(FinishDo(Scn, st, h, c))
Begin(h) == CanBegin(Scn, st, h) /\ st' = Dirty(BeginDo(Scn, st, h))
Call(h, ord) == /\ InCall(st, h) /\ ord \in FireOrders(Scn, st, h)
                /\ st' = Dirty(CallDo(Scn, st, h, ord))
End(h) == CanEnd(Scn, st, h) /\ st' = Dirty(EndDo(Scn, st, h))
Expire(h, word) == CanExpire(Scn, st, h, word) /\ st' = Dirty(ExpireDo(Scn, st, h, word))
Restart(h, rord) == CanRestart(Scn, st, h, rord) /\ st' = Dirty(RestartDo(Scn, st, h, rord))
Crash(h) == CanCrash(Scn, st, h) /\ st' = Dirty(CrashDo(Scn, st, h))
Reap(s, word) == CanReap(Scn, st, s, word) /\ st' = Dirty(ReapDo(Scn, st, s, word))
KillBegin(h) == "kill" \in HelpKinds /\ CanHelp(Scn, st) /\ st' = KillBeginDo(Scn, st, h)
UnregBegin(h, a) == "unreg" \in HelpKinds /\ CanHelp(Scn, st) /\ st' = UnregBeginDo(Scn, st, h, a)
ACall(ord) == InACall(st) /\ ord \in AFireOrders(Scn, st) /\ st' = ACallDo(Scn, st, ord)
AEnd(x) == x = 1 /\ CanAEnd(st) /\ st' = AEndDo(st)
Place(a, h) == CanPlace(Scn, st, a, h) /\ st' = Dirty(PlaceDo(Scn, st, a, h))
Withdraw(a, h) == CanWithdraw(Scn, st, a, h) /\ st' = Dirty(WithdrawDo(Scn, st, a, h))
RmRoot(x) == x = 1 /\ CanRmRoot(Scn, st) /\ st' = Dirty(RmRootDo(Scn, st))
PubBegin(h, a, ty) == CanPub(Scn, st) /\ st' = Dirty(PubBeginDo(Scn, st, h, a, ty))
PCall(x) == x = 1 /\ InPCall(st) /\ st' = Dirty(PCallDo(Scn, st))
PEnd(x) == x = 1 /\ CanPEnd(st) /\ st' = Dirty(PEndDo(st))
RegBegin(h, c, kind) == CanReg(Scn, st) /\ st' = Dirty(RegBeginDo(Scn, st, h, c, kind))
RCall(x) == x = 1 /\ InRCall(st) /\ st' = Dirty(RCallDo(Scn, st))
REnd(x) == x = 1 /\ CanREnd(st) /\ st' = Dirty(REndDo(st))
Pad(n) == Quiescent(Scn, st) /\ st.pad < MaxPad /\ n = st.pad + 1
          /\ st' = [st EXCEPT !.pad = n, !.last = NoLast]

(* Parameters must range over constant sets for TLC to print them in the      *)
(* action labels the schedule reader uses.                                    *)
ContSeqs == UNION {Orders(X) : X \in SUBSET Range(Conts)}
FireSeqs == ContSeqs

Next ==
  \/ \E h \in Range(Hosts), c \in Range(Conts) : Submit(h, c)
  \/ \E h \in Range(Hosts), c \in Range(Conts) : Finish(h, c)
  \/ \E h \in Range(Hosts) : Begin(h)
  \/ \E h \in Range(Hosts), ord \in FireSeqs : Call(h, ord)
  \/ \E h \in Range(Hosts) : End(h)
  \/ \E h \in Range(Hosts), word \in FireSeqs : Expire(h, word)
  \/ \E h \in Range(Hosts), rord \in ContSeqs : Restart(h, rord)
  \/ \E h \in Range(Hosts) : Crash(h)
  \/ \E s \in 1..(Len(Hosts) + MaxExpire) \cup {RegSess(n) : n \in 1..MaxReg}, word \in FireSeqs :
        Reap(s, word)
  \/ \E h \in Range(Hosts) : KillBegin(h)
  \/ \E h \in Range(Hosts), a \in DOMAIN PathsOf : UnregBegin(h, a)
  \/ \E ord \in FireSeqs : ACall(ord)
  \/ \E x \in {1} : AEnd(x)
  \/ \E a \in DOMAIN PathsOf, h \in Range(Hosts) : Place(a, h)
  \/ \E a \in DOMAIN PathsOf, h \in Range(Hosts) : Withdraw(a, h)
  \/ \E x \in {1} : RmRoot(x)
  \/ \E h \in Range(Hosts), a \in DOMAIN PathsOf, ty \in EventTypes : PubBegin(h, a, ty)
  \/ \E x \in {1} : PCall(x)
  \/ \E x \in {1} : PEnd(x)
  \/ \E h \in Range(Hosts), c \in Range(Conts), kind \in RegKinds : RegBegin(h, c, kind)
  \/ \E x \in {1} : RCall(x)
  \/ \E x \in {1} : REnd(x)
  \/ \E n \in 1..MaxPad : Pad(n)

Spec == Init /\ [][Next]_st

-----------------------------------------------------------------------------
(* Property C17.                                                              *)

(* C17.ephemeral: every presence node is ephemeral; the node a create call    *)
(* just made belongs to the calling session.                                  *)
Ephemeral ==
  /\ \A p \in DOMAIN st.nodes : st.nodes[p].o # 0
  /\ st.last.w.op = "create" =>
       st.last.w.path \in DOMAIN st.nodes /\ st.nodes[st.last.w.path].o = st.last.s

(* Without an administrator deleting nodes (MaxKill = 0): what a service has  *)
(* registered is a node of its own session -- which makes the owner test of   *)
(* _safe_delete redundant in that environment.                                *)
RegisteredOwned ==
  \A h \in Range(Hosts) : \A p \in DOMAIN st.reg[h] :
     p \in DOMAIN st.nodes /\ st.nodes[p].o = st.sess[h]

(* C17.noForeign: a set / delete is applied only to a node the calling        *)
(* session owns at that instant.                                              *)
NoForeign == st.last.rk \in {"create", "delete"} /\ st.last.w.op \in {"set", "delete"}
                => st.last.w.o = st.last.s

(* C17.waits: a request that met a foreign owner writes nothing afterwards    *)
(* and ends as "wait"; a retry is requested only when the awaited node is     *)
(* gone.                                                                      *)
Waits ==
  /\ st.last.fsb /\ st.last.rk = "create" => st.last.w.op = "none"
  /\ \A p \in st.last.await : p \notin DOMAIN st.nodes
  /\ \A h \in Range(Hosts) :
       st.pc[h].ph = "end" /\ st.pc[h].k = "create" /\ st.fs[h] => st.pc[h].res = "wait"
  /\ \A w \in st.watches : w.p \in DOMAIN st.nodes /\ st.nodes[w.p].o # st.sess[w.h]

(* C17.ownOnly: a delete request for c deletes only nodes the map records     *)
(* for c.                                                                     *)
OwnOnly == st.last.rk = "delete" /\ st.last.w.op = "delete" => st.last.regc = st.last.rc

(* C17.newerKept (the consequence the statement draws from ownOnly): the      *)
(* clean-up of a container never deletes a node to which a newer container of *)
(* the same instance, whose request still exists on that host, is entitled    *)
(* (Claim).  Violated by the unrepaired behaviour ("olderSteals").            *)
NewerKept == ~st.last.stole

(* sanity of the model itself: a request never finds its own node missing     *)
(* (MaxKill = 0)                                                              *)
NoError == \A h \in Range(Hosts) : st.pc[h].res # "error:NoNodeError"

-----------------------------------------------------------------------------
(* Extension (MaxKill > 0).  With helpers in the environment Ephemeral, Waits, *)
(* OwnOnly (and NewerKept for the repaired behaviour) still hold; NoForeign,   *)
(* RegisteredOwned and NoError do not (see ExtNamed).                          *)
Helper == st.last.rk \in {"kill", "unreg"}

(* ext.kill.scope: helpers only delete; kill_node deletes running / endpoint   *)
(* nodes and the host's server presence node, never an identity; unregister_*  *)
(* of an instance only that instance's nodes.                                  *)
ExtScope ==
  Helper =>
    /\ st.last.w.op \in {"none", "delete"}
    /\ st.last.w.op = "delete" =>
         IF st.last.rk = "kill"
         THEN \/ \E a \in DOMAIN PathsOf : \E k \in Scn.kidx \cap DOMAIN PathsOf[a] :
                    PathsOf[a][k] = st.last.w.path
              \/ st.last.rc \in DOMAIN Ext.sp /\ Ext.sp[st.last.rc] = st.last.w.path
         ELSE st.last.w.path \in AllPaths(Scn)

(* ext.kill.atomic: a helper run that nothing else interleaved with has        *)
(* removed exactly the nodes whose data names the host (KillSet / UnregSet at  *)
(* its start) and nothing else.                                                *)
ExtAtomic ==
  st.adm.ph = "run" /\ st.adm.todo = <<>> /\ st.adm.clean =>
     DOMAIN st.nodes = st.adm.n0 \ st.adm.k0

(* ext.kill.window (OBSERVATIONS, expected to be violated in the model): the   *)
(* node a helper deletes names its host at that instant -- false when the      *)
(* node was replaced between the helper's get and its delete; and NoForeign    *)
(* with helpers around -- false when a node _safe_delete has just seen as its  *)
(* own is killed and re-created by the other host before the delete.           *)
ExtNamed == Helper /\ st.last.w.op = "delete" => st.last.named

(* C17.noForeign for the helpers (they are code of presence.py too): a helper  *)
(* deletes a presence node only after ITS OWN get of that node showed data     *)
(* naming the host it acts for.  A delete that nevertheless hits a node of     *)
(* another host is the window above; a delete without that evidence is the     *)
(* property's violation (trace clause C17.noForeign on helper lines).          *)
ExtGuarded == Helper /\ st.last.w.op = "delete" => st.last.guarded

-----------------------------------------------------------------------------
(* C17.unscheduleOwner (MaxPub > 0): a host that publishes a terminal event    *)
(* deletes /scheduled/<app> only if ITS exists() of /placement/<that host>/    *)
(* <app> showed the node: a late event of an old container, published by a    *)
(* host the instance has been withdrawn from (placed nowhere, placed on        *)
(* another server, no /placement at all), leaves the instance scheduled.       *)
(* Violated by the defect "unschedNowhere" (also un-schedule what is placed    *)
(* nowhere).                                                                  *)
UnscheduleOwner ==
  st.last.rk = "publish" /\ st.last.w.op = "delete" => st.last.guarded

(* observation ext.unschedule.window (expected to fail): the placement is     *)
(* still this host's at the instant of the delete -- false when the scheduler *)
(* withdraws it between the publisher's exists and its delete.                 *)
UnscheduleOwnerNow ==
  st.last.rk = "publish" /\ st.last.w.op = "delete" => st.last.named

(* C17.ownsAfterRegister (MaxReg > 0): when register_* has returned, every     *)
(* node it was to register exists and is an ephemeral node of the CALLER's     *)
(* session -- and stays so while that session lives, whatever other session    *)
(* expires (C17.keptAfterExpire).  Violated by the defect "sameDataOk" (an      *)
(* existing node with identical data is taken for registered).                  *)
RegOwned(r) ==
  \A k \in Range(RegPaths(Scn, r.c, r.kind)) :
     LET p == CPaths(Scn, r.c)[k] IN p \in DOMAIN st.nodes /\ st.nodes[p].o = r.s
OwnsAfterRegister ==
  st.rrun.ph = "end" /\ st.rrun.res = "ok" => RegOwned(st.rrun)
KeptAfterExpire == \A r \in st.regd : RegOwned(r)

(* a publication writes its event, /finished/<app> and nothing else but that  *)
(* delete                                                                     *)
UnscheduleScope ==
  st.last.rk = "publish" /\ st.last.w.op # "none" =>
     st.last.w.op = "delete" /\ \E a \in DOMAIN PathsOf : Ext.sch[a] = st.last.w.path
=============================================================================
