---------------------------- MODULE AppCfgTrace ----------------------------
(* Trace specification for recorded executions of the real AppCfgMgr        *)
(* handlers, monitor.MonitorContainerCleanup and cleanup.Cleanup on a real  *)
(* temporary directory (harness/appcfg_driver.py).                          *)
(* Batch file (env TRACE_FILE): [traces |-> << [tid, lines] >>]; line 1 is   *)
(* the initial state, every later line = one event with the state projected *)
(* from the file system after it.  The spec is TOTAL: every line is         *)
(* consumed, the logged post-state is adopted, and the set of failed named  *)
(* clauses is printed.  All judging is done with the operators of           *)
(* AppCfg.tla: the clauses C13xxx and the successor functions DoXxx.        *)
EXTENDS TraceLib, Json, IOUtils

VARIABLES t, i, st

M == INSTANCE AppCfg WITH Instances <- {}, MaxGen <- 0, MaxEvents <- 0, Defects <- {},
                          LateMonitor <- FALSE, CleanupSvc <- TRUE, n <- 0

Batch == JsonDeserialize(IOEnv.TRACE_FILE)
Traces == Batch.traces

(* JSON -> state record of AppCfg.tla.  Functions are logged as arrays of   *)
(* pairs so that empty ones and non-string keys need no special care.       *)
CC(j) == [i |-> j.i, g |-> j.g]
CN(j) == [k |-> j.k, i |-> j.i, g |-> j.g]
FnOf(pairs, K(_), V(_)) ==
  LET S == SetOf(pairs) IN
  [x \in {K(p) : p \in S} |-> V(CHOOSE p \in S : K(p) = x)]
KeyA(p) == p.a
ValG(p) == p.g
KeyC(p) == CC(p.c)
ValM(p) == SetOf(p.m)
KeyN(p) == p.n
KeyNm(p) == CN(p.n)
ValT(p) == CC(p.t)
Canon(js) ==
  [cache |-> FnOf(js.cache, KeyA, ValG),
   ready |-> js.ready, active |-> js.active,
   pending |-> [x \in DOMAIN js.pending |-> [k |-> js.pending[x].k, n |-> js.pending[x].n]],
   apps |-> FnOf(js.apps, KeyC, ValM),
   running |-> FnOf(js.running, KeyN, ValT),
   cleanup |-> FnOf(js.cleanup, KeyNm, ValT),
   tomb |-> {CC(c) : c \in SetOf(js.tomb)},
   svc |-> js.svc,
   cpending |-> [x \in DOMAIN js.cpending |-> [k |-> js.cpending[x].k, n |-> CN(js.cpending[x].n)]],
   cleaning |-> {CN(x) : x \in SetOf(js.cleaning)},
   capps |-> {CN(x) : x \in SetOf(js.capps)},
   fuel |-> -1]

(* C13 and drift.step look at the fields of the listed property only; the   *)
(* cleanup service's fields are judged by the ext.cleanup clauses           *)
CoreFields == {"cache", "ready", "active", "pending", "apps", "running", "cleanup", "tomb"}
CoreEq(a, b) == \A f \in CoreFields : a[f] = b[f]

(* the container identity the code derives from a cache file (inode, ctime)  *)
(* is the generation the environment wrote: both views are logged            *)
IdentOK(js) == SetOf(js.cache) = SetOf(js.cacheid)

F(name, holds) == IF holds THEN {} ELSE {name}
E(name, cond) == IF cond THEN {name} ELSE {}

IsHandler(ev) == ev \in {"OnCreated", "OnModified", "OnDeleted"}
HeadIs(pre, k, nm) == pre.pending # <<>> /\ Head(pre.pending) = M!Ev(k, nm)

(* When is a step a (re)synchronisation?  Not when the code's own flag says  *)
(* so (a manager that swallows the deletion of .ready would never owe one): *)
(* st.sh, kept by this specification from the events alone, is TRUE from a   *)
(* handled deletion of .ready, a restart or a kill until the next handled   *)
(* CREATED/MODIFIED of .ready - the manager has to be inactive exactly then, *)
(* and that next .ready event has to synchronise.                           *)
ShadowNext0(pre, ev, args) ==
  IF ev \in {"ManagerRestart", "NodeStart", "Crash"} THEN TRUE
  ELSE IF ev = "OnDeleted" /\ args[1] = M!READY THEN TRUE
  ELSE IF ev \in {"OnCreated", "OnModified"} /\ args[1] = M!READY THEN FALSE
  ELSE pre.sh
(* a Meddled line is the delivery args[1](args[2]) with the monitor acting inside it *)
ShadowNext(pre, ev, args) ==
  IF ev = "Meddled" THEN ShadowNext0(pre, args[1], <<args[2]>>) ELSE ShadowNext0(pre, ev, args)
WithSh(rec, b) == [x \in DOMAIN rec \cup {"sh"} |-> IF x = "sh" THEN b ELSE rec[x]]

Kind(pre, ev, args) ==
  IF ev \in {"OnCreated", "OnModified"} /\ args[1] = M!READY /\ pre.sh THEN "sync"
  ELSE IF ev = "OnDeleted" /\ args[1] # M!READY /\ ~pre.sh THEN "term"
  ELSE "other"
(* what the MODEL does for the step (conformance) goes by the logged flag   *)
ModelSync(pre, ev, args) == ev \in {"OnCreated", "OnModified"} /\ M!IsFirstSync(pre, args[1])

(* the order in which _synchronize met the containers of one instance is    *)
(* not logged: take, per instance, an order that reproduces the observed    *)
(* slice of that instance, if there is one                                  *)
Slice(s, a) ==
  <<IF a \in DOMAIN s.running THEN {s.running[a]} ELSE {},
    {<<nm, s.cleanup[nm]>> : nm \in {x \in DOMAIN s.cleanup : x.i = a}},
    {<<c, s.apps[c]>> : c \in {x \in DOMAIN s.apps : x.i = a}}>>
BestOrds(p, post, D) ==
  [a \in M!SyncInsts(p) |->
     LET R == M!PermSeqs(M!ContGens(p, a))
         good == {o \in R : Slice(M!SyncInst(p, a, o, D), a) = Slice(post, a)}
     IN IF good # {} THEN CHOOSE o \in good : TRUE ELSE CHOOSE o \in R : TRUE]

(* "Crash" [handler, name]: the manager was killed inside the handler of    *)
(* the head event and restarted.  How far it got is not logged: the state   *)
(* must be the restart of SOME cut of the handler.  For a cut first sync the *)
(* instances are judged one by one (each slice is some cut of that          *)
(* instance's part of _synchronize), which over-approximates the sequential *)
(* run a little.                                                            *)
CutFuel == (0..12) \cup {-1}
CrashCoreOK(pre, args, post, D) ==
  LET e == Head(pre.pending)
      isSync == e.k \in {"C", "M"} /\ M!IsFirstSync(pre, e.n)
  IN IF ~isSync
     THEN \E k \in CutFuel : CoreEq(M!DoCrash(pre, k, M!NoOrds, D), post)
     ELSE LET p == [M!Pop(pre) EXCEPT !.active = TRUE] IN
          /\ \A f \in {"cache", "ready", "tomb"} : post[f] = pre[f]
          /\ post.active = FALSE /\ post.pending = <<>>
          /\ \A a \in M!SyncInsts(p) \cup {c.i : c \in DOMAIN post.apps} :
               \E k \in CutFuel, o \in M!PermSeqs(M!ContGens(p, a)) :
                  Slice(M!SyncInst([p EXCEPT !.fuel = k], a, o, D), a) = Slice(post, a)

Expected(pre, ev, args, post, D) ==
  CASE ev \in {"CacheCreate", "CacheReplace"} -> M!DoCacheCreate(pre, args[1], args[2])
    [] ev = "CacheDelete" -> M!DoCacheDelete(pre, args[1])
    [] ev = "ReadyOn" -> M!DoReadyOn(pre)
    [] ev = "ReadyOff" -> M!DoReadyOff(pre)
    [] ev = "ContainerFinishes" -> M!DoFinish(pre, M!Cont(args[1], args[2]), args[3])
    [] ev = "MonitorCleanup" -> M!DoMonitor(pre, M!Cont(args[1], args[2]))
    [] ev = "CleanupCompletes" -> M!DoCleanupDone(pre, [k |-> args[1], i |-> args[2], g |-> args[3]])
    [] ev = "ManagerRestart" -> M!DoRestart(pre)
    [] ev = "NodeStart" -> M!DoNodeStart(pre)
    [] ev = "CleanupStart" -> M!DoCleanupStart(pre)
    [] ev = "CleanupEvent" -> M!DoCleanupEvent(pre)
    [] ev = "OnCreated" ->
         M!DoOnCreated(pre, args[1],
                       IF ModelSync(pre, ev, args)
                       THEN BestOrds([M!Pop(pre) EXCEPT !.active = TRUE], post, D) ELSE M!NoOrds, D)
    [] ev = "OnModified" ->
         M!DoOnModified(pre, args[1],
                        IF ModelSync(pre, ev, args)
                        THEN BestOrds([M!Pop(pre) EXCEPT !.active = TRUE], post, D) ELSE M!NoOrds, D)
    [] ev = "OnDeleted" -> M!DoOnDeleted(pre, args[1], D)
    [] OTHER -> pre

(* the event must be one the model enables in pre (the driver delivers only *)
(* what happened); otherwise the line is a harness problem, not the code's  *)
Enabled(pre, ev, args) ==
  CASE ev = "CacheCreate" -> args[1] \notin DOMAIN pre.cache
    [] ev = "CacheReplace" -> args[1] \in DOMAIN pre.cache
    [] ev = "CacheDelete" -> args[1] \in DOMAIN pre.cache
    [] ev = "ReadyOn" -> TRUE
    [] ev = "ReadyOff" -> pre.ready
    [] ev = "ContainerFinishes" -> M!CanFinish(pre, M!Cont(args[1], args[2]))
    [] ev = "MonitorCleanup" -> M!Cont(args[1], args[2]) \in pre.tomb
    [] ev = "CleanupCompletes" -> [k |-> args[1], i |-> args[2], g |-> args[3]] \in DOMAIN pre.cleanup
    [] ev = "ManagerRestart" -> TRUE
    [] ev = "NodeStart" -> TRUE
    [] ev = "CleanupStart" -> TRUE
    [] ev = "CleanupEvent" -> pre.svc /\ pre.cpending # <<>>
    [] ev = "Crash" -> pre.pending # <<>> /\ Head(pre.pending).n = args[2]
                        /\ Head(pre.pending).k = (CASE args[1] = "OnCreated" -> "C"
                                                    [] args[1] = "OnDeleted" -> "D"
                                                    [] OTHER -> "M")
    [] ev = "OnCreated" -> HeadIs(pre, "C", args[1])
    [] ev = "OnModified" -> HeadIs(pre, "M", args[1])
    [] ev = "OnDeleted" -> HeadIs(pre, "D", args[1])
    [] OTHER -> FALSE

ExplainedBy(pre, ev, args, post) ==
  {D \in SUBSET M!AllDefects :
     IF ev = "Crash" THEN CrashCoreOK(pre, args, post, D)
     ELSE CoreEq(Expected(pre, ev, args, post, D), post)}

(* ---- extension: the cleanup service (conformance class, never a          *)
(* violation of C13) ------------------------------------------------------- *)
(* the service's fields are what the model computes.  Events appended by    *)
(* one step are compared as a set: _synchronize visits the instances in the *)
(* order of a Python set, the model in a fixed one                          *)
ExtStep(pre, ev, exp, post) ==
  /\ exp.svc = post.svc /\ exp.cleaning = post.cleaning /\ exp.capps = post.capps
  /\ IF ev \in {"CleanupStart", "CleanupEvent", "NodeStart"} THEN exp.cpending = post.cpending
     ELSE LET k == Len(pre.cpending) IN
          /\ Len(post.cpending) = Len(exp.cpending) /\ Len(post.cpending) >= k
          /\ SubSeq(post.cpending, 1, k) = pre.cpending
          /\ SetOf(post.cpending) = SetOf(exp.cpending)
(* invoke removes exactly its own link, at most the directory the link      *)
(* pointed to, and leaves running/ and cleaning/ alone                      *)
ExtInvoke(pre, nm, post) ==
  /\ DOMAIN post.cleanup = DOMAIN pre.cleanup \ {nm}
  /\ \A x \in DOMAIN post.cleanup : post.cleanup[x] = pre.cleanup[x]
  /\ DOMAIN pre.apps \ DOMAIN post.apps \subseteq {pre.cleanup[nm]}
  /\ pre.cleanup[nm] \notin DOMAIN post.apps
  /\ post.running = pre.running /\ post.cleaning = pre.cleaning
(* cleaning links never dangle; a running service with an empty queue has   *)
(* exactly one cleaning app per cleanup link                                *)
ExtCleaning(post) ==
  /\ post.cleaning \subseteq post.capps
  /\ post.svc /\ post.cpending = <<>> =>
       post.cleaning = DOMAIN post.cleanup /\ post.capps = post.cleaning
(* what _sync left is a fixed point of _sync (with ext.cleanup.step:        *)
(* idempotence), and it did not touch links or containers                   *)
ExtSync(pre, post) ==
  /\ M!CleanupSyncOp(post) = post
  /\ post.cleanup = pre.cleanup /\ post.apps = pre.apps /\ post.running = pre.running
ExtFail(pre, ev, args, post, by) ==
  LET nm == [k |-> args[1], i |-> args[2], g |-> args[3]] IN
  \* (several defect levels can explain the core fields of a step and still
  \* differ in the events they predict: one of them has to fit)
  F("ext.cleanup.step",
    IF ev = "Crash"
    THEN /\ post.svc = pre.svc /\ post.cleaning = pre.cleaning /\ post.capps = pre.capps
         /\ Len(post.cpending) >= Len(pre.cpending)
         /\ SubSeq(post.cpending, 1, Len(pre.cpending)) = pre.cpending
    ELSE by = {} \/ \E D \in by : ExtStep(pre, ev, Expected(pre, ev, args, post, D), post))
  \cup F("ext.cleanup.invoke", ev = "CleanupCompletes" => ExtInvoke(pre, nm, post))
  \cup F("ext.cleanup.dirs", ev # "CleanupCompletes" => DOMAIN pre.apps \subseteq DOMAIN post.apps)
  \cup F("ext.cleanup.cleaning", ExtCleaning(post))
  \cup F("ext.cleanup.sync", ev = "CleanupStart" => ExtSync(pre, post))

Verdict(pre, line, post) ==
  LET ev == line.ev
      args == line.args IN
  IF "exc" \in DOMAIN line THEN [fail |-> {"exc"}, ex |-> {}]
  \* the node monitor handled a tombstone between two file-system probes of a handler (args: handler,
  \* its argument, instance, generation): not a step of the model (its handlers are atomic); judged by
  \* the state clause only - whatever the interleaving, no container may end up behind two links
  ELSE IF ev = "Meddled" THEN [fail |-> F("C13.oneLink", M!C13oneLink(pre, post)), ex |-> {"C13", "meddled"}]
  ELSE IF ~Enabled(pre, ev, args) THEN [fail |-> {"drift.enabled"}, ex |-> {}]
  ELSE
  LET kind == Kind(pre, ev, args)
      arg == IF IsHandler(ev) THEN args[1] ELSE ""
      by == ExplainedBy(pre, ev, args, post)
      twoGen == \E c \in DOMAIN pre.apps, d \in DOMAIN pre.apps : c.i = d.i /\ c.g # d.g
  IN [fail |-> F("C13.oneLink", M!C13oneLink(pre, post))
               \cup F("C13.sync", M!C13sync(pre, kind, post))
               \cup F("C13.handoff", M!C13handoff(pre, kind, arg, post))
               \cup F("C13.noRestart", M!C13noRestart(pre, post))
               \cup F("C13.keep", M!C13keep(pre, kind, post))
               \cup F("drift.step", by # {})
               \cup F("drift.ident", IdentOK(line.post))
               \cup ExtFail(pre, ev, args, post, by),
      ex |-> E("C13", (kind = "sync" /\ (DOMAIN pre.apps # {} \/ DOMAIN pre.cache # {}))
                       \/ (IsHandler(ev) /\ (post.running # pre.running \/ post.cleanup # pre.cleanup)))
             \cup E("crash", ev = "Crash" /\ post.running = pre.running /\ post.cleanup = pre.cleanup
                               /\ DOMAIN post.apps = DOMAIN pre.apps)
             \cup E("crashCut", ev = "Crash" /\ ~(post.running = pre.running /\ post.cleanup = pre.cleanup
                                                /\ DOMAIN post.apps = DOMAIN pre.apps))
             \cup E("flipReplace", kind = "sync" /\ \E a \in DOMAIN pre.running :
                                      a \in DOMAIN pre.cache /\ pre.running[a] # M!CachedCont(pre, a))
             \cup E("sync", kind = "sync") \cup E("term", kind = "term")
             \cup E("twoGen", kind = "sync" /\ twoGen)
             \cup E("finished", kind = "sync" /\ \E c \in DOMAIN pre.apps : M!Finished(pre, c))
             \cup E("keep", kind = "sync" /\ M!Kept(pre) # {})
             \cup E("ext.cleanup", ev \in {"CleanupStart", "CleanupEvent"}
                                    \/ (ev = "CleanupCompletes" /\ pre.svc))
             \cup E("ext.cleanup.gone", ev = "CleanupCompletes"
                                         /\ pre.cleanup[[k |-> args[1], i |-> args[2], g |-> args[3]]]
                                              \notin DOMAIN pre.apps)
             \cup E("asRepaired", IsHandler(ev) /\ {} \in by /\ M!AllDefects \notin by)
             \cup E("asUnchanged", IsHandler(ev) /\ M!AllDefects \in by /\ {} \notin by)]

Init == /\ t \in DOMAIN Traces
        /\ i = 1
        /\ st = WithSh(Canon(Traces[t].lines[1].post), TRUE)

Next == /\ i < Len(Traces[t].lines)
        /\ i' = i + 1
        /\ t' = t
        /\ st' = WithSh(Canon(Traces[t].lines[i + 1].post),
                        ShadowNext(st, Traces[t].lines[i + 1].ev, Traces[t].lines[i + 1].args))
        /\ LET v == Verdict(st, Traces[t].lines[i + 1], st') IN
           PrintT(ToJson([tid |-> Traces[t].tid, i |-> i, fail |-> v.fail, ex |-> v.ex]))

Spec == Init /\ [][Next]_<<t, i, st>>
=============================================================================
