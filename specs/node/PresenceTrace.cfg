INIT TInit
NEXT TNext
CHECK_DEADLOCK FALSE
CONSTANTS
 Hosts = {}
 Conts = {}
 InstOf = {}
 PathsOf = {}
 PerCont = {}
 MaxExpire = 0
 MaxKill = 0
 HelpKinds = {}
 MaxPub = 0
 MaxSched = 0
 MaxReg = 0
 Retries = 13
 Ext = {}
 MaxPad = 0
 SymFirst = FALSE
 Defects = {}
