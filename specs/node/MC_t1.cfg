\* AppCfg.tla, repaired behaviour (no defect modelled = appcfgmgr.py with proposed_fixes/C13-1..3): every clause of C13 must hold
SPECIFICATION Spec
CONSTANTS
  Instances = {"a1", "a2"}
  MaxGen = 2
  MaxEvents = 8
  Defects = {}
  LateMonitor = FALSE
  CleanupSvc = FALSE
INVARIANT TypeOK
PROPERTY PropOneLink
PROPERTY PropSync
PROPERTY PropHandoff
PROPERTY PropNoRestart
PROPERTY PropKeep
CHECK_DEADLOCK FALSE
