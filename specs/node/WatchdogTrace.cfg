SPECIFICATION TraceSpec
CONSTANTS
  Names = {"w1", "w2", "w3"}
CHECK_DEADLOCK FALSE
