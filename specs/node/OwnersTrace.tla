---------------------------- MODULE OwnersTrace ----------------------------
(* Trace specification for recorded executions of the real VipMgr, RuleMgr,  *)
(* EndpointsMgr and NetworkResourceService (harness/owners_driver.py).       *)
(* Batch file (env TRACE_FILE):                                              *)
(*   [hosts, netaddrs, specapp, traces |-> << [tid, lines] >>]               *)
(* line 1 is the initial state; every later line is one call:                *)
(*   [ev, args, res, post |-> [live, vips, rules, specs, dev, veth]]         *)
(* vips/rules/specs are directory listings <<entry, owner>>, dev the         *)
(* service's device table.  res is "ok" | "raise" | "skip" | the address an  *)
(* allocation returned.  TOTAL: every line is consumed, the logged post      *)
(* state adopted, the failed clauses printed.  The bookkeeping of the        *)
(* service loop (phase, pending deletes, import list) is the harness's own   *)
(* and is carried by the model.                                              *)
EXTENDS Owners, TraceLib, Json, IOUtils

Batch == JsonDeserialize(IOEnv.TRACE_FILE)
Traces == Batch.traces
TrHosts == Batch.hosts
TrNet == SetOf(Batch.netaddrs)
TrSpecApp == Batch.specapp

VARIABLES t, i

Obs(s) == [live |-> s.live, vips |-> s.vips, rules |-> s.rules, specs |-> s.specs,
           dev |-> s.dev, veth |-> s.veth]

Canon(j, env) ==
  [live |-> SetOf(j.live), vips |-> SetOf(j.vips), rules |-> SetOf(j.rules),
   specs |-> SetOf(j.specs),
   dev |-> {Dev(d.o, d.ip, d.stale) : d \in SetOf(j.dev)},
   veth |-> SetOf(j.veth),
   pend |-> env.pend, phase |-> env.phase, imp |-> env.imp, gc |-> env.gc,
   n |-> 0, bad |-> {}]

Env0 == [pend |-> {}, phase |-> "down", imp |-> {}, gc |-> NoGc]

(* A recorded stepped pass: GcBegin(db), then GcRun(db) lines -- each an      *)
(* opaque stretch of the real garbage_collect() up to the directory read at   *)
(* which the harness let the environment act -- the environment's lines in    *)
(* between, and GcEnd(db) for the stretch up to the return.  Which entries a  *)
(* stretch visited is not observable; it is judged by what it removed.        *)
ModelPost(pre, line) ==
  IF line.ev = "GcRun" THEN pre
  ELSE Step(pre, line.ev, line.args, CHOOSE c \in Choices(pre, line.ev, line.args) : TRUE).post

GcStretchExplained(pre, post) ==
  LET d == pre.gc.db IN
  /\ pre.gc.on
  /\ DbGet(post, d) \subseteq DbGet(pre, d)
  /\ \A p \in DbGet(pre, d) \ DbGet(post, d) : p[2] \notin pre.live
  /\ Obs(DbSet(post, d, {})) = Obs(DbSet(pre, d, {}))

Explained(pre, line, post) ==
  IF line.ev \in {"GcRun", "GcEnd"}
  THEN line.res = "ok" /\ GcStretchExplained(pre, post)
  ELSE \E c \in Choices(pre, line.ev, line.args) :
          LET r == Step(pre, line.ev, line.args, c) IN
          r.res = line.res /\ Obs(r.post) = Obs(post)

Verdict(pre, line, post) ==
  [fail |-> StepFail(pre, line.ev, line.args, line.res, post)
            \cup ExtFail(pre, line.ev, line.args, line.res, post)
            \cup FailIf("drift.step", Explained(pre, line, post)),
   ex |-> StepEx(pre, line.ev, line.args, line.res, post)]

TrInit == /\ t \in DOMAIN Traces
          /\ i = 1
          /\ st = Canon(Traces[t].lines[1].post, Env0)

TrNext == /\ i < Len(Traces[t].lines)
          /\ i' = i + 1
          /\ t' = t
          /\ LET line == Traces[t].lines[i + 1] IN
             /\ st' = Canon(line.post, ModelPost(st, line))
             /\ LET v == Verdict(st, line, st') IN
                PrintT(ToJson([tid |-> Traces[t].tid, i |-> i, fail |-> v.fail, ex |-> v.ex]))

TrSpec == TrInit /\ [][TrNext]_<<t, i, st>>
=============================================================================
