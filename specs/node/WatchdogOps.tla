------------------------------ MODULE WatchdogOps ----------------------------
(* Beyond the listed properties: treadmill.watchdog.Watchdog, the file based *)
(* lease every node service holds (sproc/* `watchdog.create(...)`,           *)
(* `lease.heartbeat()` once per loop) and that the node's kernel-watchdog    *)
(* service polls with `check()`: one expired lease takes the node down.      *)
(* A lease is a file whose mtime is its deadline.  Time is a natural number  *)
(* of seconds; a lease object (holder) remembers its timeout and content.    *)
(* All steps are pure functions of (state, event) so that the trace          *)
(* specification re-computes every recorded step of the real class.          *)
EXTENDS Naturals, FiniteSets, TLC

CONSTANTS Names

None == 0      \* no file

(* st.dl[n]: deadline stored in the file (None = no file);                   *)
(* st.held[n]: timeout of the lease object a service holds (None = no object) *)
Init0 == [now |-> 1, dl |-> [n \in Names |-> None], held |-> [n \in Names |-> None]]

DoCreate(s, n, t) == [s EXCEPT !.dl[n] = s.now + t, !.held[n] = t]
CanHeartbeat(s, n) == s.held[n] # None
DoHeartbeat(s, n) == [s EXCEPT !.dl[n] = s.now + s.held[n]]     \* utime, or re-create when the file was lost
CanRemove(s, n) == s.held[n] # None
DoRemove(s, n) == [s EXCEPT !.dl[n] = None, !.held[n] = None]
DoLose(s, n) == [s EXCEPT !.dl[n] = None]                       \* somebody else unlinks the file
DoInitialize(s) == [s EXCEPT !.dl = [n \in Names |-> None]]     \* Watchdog.initialize(): node start
DoTick(s, d) == [s EXCEPT !.now = @ + d]

(* Watchdog.check(): the failed leases, with the time they failed at *)
Failed(s) == {n \in Names : s.dl[n] # None /\ ~(s.now < s.dl[n])}
CheckResult(s) == {<<n, s.dl[n]>> : n \in Failed(s)}
=============================================================================
