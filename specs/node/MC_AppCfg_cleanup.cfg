\* AppCfg.tla with the cleanup service modelled (extension beyond C13): its own invariants + the C13 clauses
SPECIFICATION Spec
CONSTANTS
  Instances = {"a1"}
  MaxGen = 2
  MaxEvents = 7
  Defects = {}
  LateMonitor = FALSE
  CleanupSvc = TRUE
INVARIANT TypeOK
INVARIANT InvCleaning
INVARIANT InvQuiescent
INVARIANT InvSync
PROPERTY PropInvoke
PROPERTY PropDirsByInvoke
PROPERTY PropOneLink
PROPERTY PropSync
PROPERTY PropHandoff
PROPERTY PropNoRestart
PROPERTY PropKeep
CHECK_DEADLOCK FALSE
