------------------------------ MODULE AppCfg ------------------------------
(* The node's application configuration manager (treadmill/appcfgmgr.py)    *)
(* together with everything that touches running/ and cleanup/:             *)
(*   the event manager writing cache/ and cache/.ready (environment),       *)
(*   inotify delivering directory events in order but arbitrarily late,     *)
(*   containers finishing on their own (marker file + tombstone),           *)
(*   monitor.MonitorContainerCleanup.execute, cleanup.Cleanup.invoke and,   *)
(*   beyond the listed property, the rest of the cleanup service            *)
(*   (Cleanup.run/_sync/_add_cleanup_app/_remove_cleanup_app),              *)
(*   restarts of the manager and starts of the node's services.             *)
(*                                                                          *)
(* PART 1 is a library of pure successor functions over a state record s    *)
(* (no CONSTANT, no VARIABLE is referenced): the trace specification        *)
(* AppCfgTrace.tla instantiates this module and judges recorded executions  *)
(* of the real code with exactly these operators.  PART 2 is the state      *)
(* machine TLC explores.                                                    *)
(*                                                                          *)
(* s.cache    [instance -> generation]   entries present in cache/          *)
(*            (a generation = one inode/ctime of the cache file = one       *)
(*             unique container name, appcfg.gen_uniqueid)                  *)
(* s.ready    cache/.ready exists                                           *)
(* s.active   AppCfgMgr._is_active                                          *)
(* s.pending  directory events not yet handled, oldest first                *)
(* s.apps     [container -> set of marker files in data/]   dirs in apps/   *)
(* s.running  [instance -> container]        links in running/              *)
(* s.cleanup  [link name -> container]       links in cleanup/; a link name *)
(*            is NameC(container) (as _terminate names it) or               *)
(*            NameI(instance)  (as _synchronize and the monitor name it)    *)
(* s.tomb     containers whose exit tombstone the monitor has not handled   *)
(* -- extension beyond C13: the cleanup service (treadmill/cleanup.py) --   *)
(* s.svc      a cleanup service runs (= an inotify watch on cleanup/ exists) *)
(* s.cpending events on cleanup/ it has not handled yet, oldest first       *)
(* s.cleaning names of the links cleaning/<name> -> cleanup_apps/<name>     *)
(* s.capps    names of the directories cleanup_apps/<name>                  *)
(*                                                                          *)
(* A link whose target directory is gone is still a link ("dangling"):      *)
(* os.path.exists() is false for it, islink()/readlink()/rename() work.     *)
EXTENDS Integers, Sequences, FiniteSets, TLC

CONSTANTS Instances,    \* instance names the environment may place on the node
          MaxGen,       \* generations (placements) per instance
          MaxEvents,    \* environment events per behaviour
          Defects,      \* subset of AllDefects: which deviations of the code are modelled
          LateMonitor,  \* TRUE: a tombstone may be handled after a later generation was configured
          CleanupSvc    \* TRUE: the cleanup service is modelled (CleanupStart/CleanupEvent, invoke
                        \* only through a cleaning app); FALSE: abstracted to "invoke happens some time"

VARIABLES st, n
vars == <<st, n>>

-----------------------------------------------------------------------------
(* PART 1 - pure operators                                                  *)

READY == ".ready"
FinMarkers == {"exitinfo", "aborted", "oom"}

(* Deviations of the unchanged code from the property, each switchable:     *)
(*  cleanup_name    _synchronize tests only cleanup/<instance>, although    *)
(*                  _terminate names its links cleanup/<container>          *)
(*  sync_generation _synchronize tests running/<instance> and pops the      *)
(*                  cache entry without asking WHICH container of that      *)
(*                  instance the link / the entry belongs to                *)
(*  created_done    _on_created configures the entry without the tests      *)
(*                  _synchronize makes: also when its container exists      *)
(*                  already and has finished or was handed to cleanup       *)
AllDefects == {"cleanup_name", "sync_generation", "created_done"}

Cont(a, g) == [i |-> a, g |-> g]
NameI(a) == [k |-> "i", i |-> a, g |-> 0]
NameC(c) == [k |-> "c", i |-> c.i, g |-> c.g]
Ev(k, nm) == [k |-> k, n |-> nm]

Put(f, k, v) == [x \in DOMAIN f \cup {k} |-> IF x = k THEN v ELSE f[x]]
Del(f, k) == [x \in DOMAIN f \ {k} |-> f[x]]
Range(f) == {f[x] : x \in DOMAIN f}
EmptyFn == [x \in {} |-> 0]

State0 == [cache |-> EmptyFn, ready |-> FALSE, active |-> FALSE, pending |-> <<>>,
           apps |-> EmptyFn, running |-> EmptyFn, cleanup |-> EmptyFn, tomb |-> {},
           svc |-> FALSE, cpending |-> <<>>, cleaning |-> {}, capps |-> {}, fuel |-> -1]

(* Crash points inside a handler.  s.fuel = -1 normally.  To cut a handler  *)
(* of the manager after k of its file-system effects (the process is killed *)
(* there) it is evaluated with fuel k: every effect below spends one unit   *)
(* and nothing has an effect once the fuel is 0.  The effects are: create   *)
(* the container directory, (stage and) rename the running link, rename     *)
(* running/<a> to cleanup/<c>, touch data/terminated, link cleanup/<name>.  *)
(* Staged temporaries of fs.symlink_safe are dot files: no link for anyone. *)
Alive(s) == s.fuel # 0
Spend(s) == IF s.fuel > 0 THEN [s EXCEPT !.fuel = @ - 1] ELSE s

(* every change of a name in cleanup/ is one directory event for the cleanup *)
(* service, provided its watch exists: rename onto the name and              *)
(* fs.symlink_safe (temporary dot link + rename) give CREATED, also when the *)
(* name existed; unlink gives DELETED                                        *)
LinkPut(s, nm, c) ==
  [s EXCEPT !.cleanup = Put(@, nm, c),
            !.cpending = IF s.svc THEN Append(@, Ev("C", nm)) ELSE @]
LinkDel(s, nm) ==
  [s EXCEPT !.cleanup = Del(@, nm),
            !.cpending = IF s.svc THEN Append(@, Ev("D", nm)) ELSE @]

CacheGen(s, a) == IF a \in DOMAIN s.cache THEN s.cache[a] ELSE 0
Live(s, c) == c \in DOMAIN s.apps
RunExists(s, a) == a \in DOMAIN s.running /\ Live(s, s.running[a])        \* os.path.exists
ClnExists(s, nm) == nm \in DOMAIN s.cleanup /\ Live(s, s.cleanup[nm])     \* os.path.exists
Finished(s, c) == Live(s, c) /\ s.apps[c] \cap FinMarkers # {}
RunNames(s, c) == {a \in DOMAIN s.running : s.running[a] = c}
ClnNames(s, c) == {nm \in DOMAIN s.cleanup : s.cleanup[nm] = c}
NLinks(s, c) == Cardinality(RunNames(s, c)) + Cardinality(ClnNames(s, c))
Targets(s) == Range(s.running) \cup Range(s.cleanup)

(* ---- environment ------------------------------------------------------- *)
(* eventmgr._cache: fs.write_safe = temporary dot file + os.replace -> one  *)
(* CREATED event, also when the name already existed                        *)
DoCacheCreate(s, a, g) ==
  [s EXCEPT !.cache = Put(@, a, g), !.pending = Append(@, Ev("C", a))]
DoCacheDelete(s, a) ==
  [s EXCEPT !.cache = Del(@, a), !.pending = Append(@, Ev("D", a))]
(* eventmgr._cache_notify(True): open(.ready, 'w') - CREATED when new,      *)
(* MODIFIED when it is there already (every heartbeat)                      *)
DoReadyOn(s) ==
  [s EXCEPT !.ready = TRUE,
            !.pending = Append(@, Ev(IF s.ready THEN "M" ELSE "C", READY))]
DoReadyOff(s) ==
  [s EXCEPT !.ready = FALSE, !.pending = Append(@, Ev("D", READY))]

(* a supervised container stops on its own: exitinfo (MonitorContainerDown),*)
(* aborted (abort.flag_aborted) or oom (cgroup service), then the exit      *)
(* tombstone of its service, id = instance name                             *)
CanFinish(s, c) == /\ Live(s, c) /\ c.i \in DOMAIN s.running /\ s.running[c.i] = c
                   /\ ~Finished(s, c)
(* m = "none": the container's service is killed without leaving any of the  *)
(* markers (MonitorContainerCleanup flags `aborted` only for signal 6)       *)
DoFinish(s, c, m) ==
  [s EXCEPT !.apps[c] = @ \cup (IF m = "none" THEN {} ELSE {m}), !.tomb = @ \cup {c}]

(* monitor.MonitorContainerCleanup.execute({'id': instance}):               *)
(*   fs.replace(running/<instance>, cleanup/<instance>), ENOENT tolerated   *)
DoMonitor(s, c) ==
  LET a == c.i
      s1 == [s EXCEPT !.tomb = @ \ {c}] IN
  IF a \in DOMAIN s.running
  THEN LinkPut([s1 EXCEPT !.running = Del(@, a)], NameI(a), s.running[a])
  ELSE s1

(* cleanup.Cleanup.invoke(name): readlink, runtime finish() removes the     *)
(* container directory if it is still there, then the link is removed       *)
DoCleanupDone(s, nm) ==
  LET c == s.cleanup[nm] IN
  LinkDel([s EXCEPT !.apps = IF c \in DOMAIN @ THEN Del(@, c) ELSE @], nm)

(* a new AppCfgMgr process: fresh inotify watch, inactive until the next    *)
(* event on .ready                                                          *)
DoRestart(s) == [s EXCEPT !.active = FALSE, !.pending = <<>>]

(* the node's services start (boot, or a restart of the whole supervision   *)
(* tree): "On startup run.sh will clear running and cleanup" (docstring of  *)
(* _synchronize); apps/ and cache/ survive, every supervisor and with it    *)
(* every pending exit tombstone is gone, a new manager starts inactive      *)
(* (the cleanup service is one of those services: its watch and queue are   *)
(* gone; cleaning/ and cleanup_apps/ are left to its next _sync)            *)
DoNodeStart(s) == [s EXCEPT !.running = EmptyFn, !.cleanup = EmptyFn, !.tomb = {},
                            !.active = FALSE, !.pending = <<>>,
                            !.svc = FALSE, !.cpending = <<>>]

(* ---- cleanup service (extension) --------------------------------------- *)
(* Cleanup._add_cleanup_app(name): nothing if cleaning/<name> is a link     *)
(* already or cleanup/<name> is no link (any more); else create the         *)
(* cleaning app directory and link it                                       *)
AddCleanupApp(s, nm) ==
  IF nm \in s.cleaning \/ nm \notin DOMAIN s.cleanup THEN s
  ELSE [s EXCEPT !.cleaning = @ \cup {nm}, !.capps = @ \cup {nm}]
(* Cleanup._remove_cleanup_app(name): the cleaning link is removed if it    *)
(* exists (os.path.exists: not when it dangles), the directory in any case  *)
RemoveCleanupApp(s, nm) ==
  [s EXCEPT !.cleaning = IF nm \in s.capps THEN @ \ {nm} ELSE @,
            !.capps = @ \ {nm}]
RECURSIVE FoldNames(_, _, _)
FoldNames(Op(_, _), s, names) ==
  IF names = {} THEN s
  ELSE LET nm == CHOOSE x \in names : TRUE IN FoldNames(Op, Op(s, nm), names \ {nm})
(* Cleanup._sync(): add an app for every name in cleanup/, remove every     *)
(* directory in cleanup_apps/ that has no name in cleanup/ (the names are   *)
(* handled independently of each other, any order gives the same result)    *)
CleanupSyncOp(s) ==
  LET links == DOMAIN s.cleanup
      s1 == FoldNames(AddCleanupApp, s, links)
  IN FoldNames(RemoveCleanupApp, s1, s.capps \ links)
(* Cleanup.run(): a new watch on cleanup/ (events of an older one are lost), *)
(* then _sync()                                                             *)
DoCleanupStart(s) == CleanupSyncOp([s EXCEPT !.svc = TRUE, !.cpending = <<>>])
(* one event of the watch: on_created = _add_cleanup_app, on_deleted =      *)
(* _remove_cleanup_app                                                      *)
DoCleanupEvent(s) ==
  LET e == Head(s.cpending)
      p == [s EXCEPT !.cpending = Tail(@)]
  IN IF e.k = "C" THEN AddCleanupApp(p, e.n) ELSE RemoveCleanupApp(p, e.n)

(* ---- AppCfgMgr --------------------------------------------------------- *)
(* _terminate(a): readlink running/a; rename it to cleanup/<container>;     *)
(* touch data/terminated; ENOENT anywhere is tolerated                      *)
Terminate(s, a) ==
  IF a \notin DOMAIN s.running \/ ~Alive(s) THEN s
  ELSE LET c == s.running[a]
           s1 == Spend(LinkPut([s EXCEPT !.running = Del(@, a)], NameC(c), c))
       IN IF ~Alive(s1) THEN s1
          ELSE Spend([s1 EXCEPT !.apps = IF c \in DOMAIN @
                                         THEN [@ EXCEPT ![c] = @ \cup {"terminated"}] ELSE @])

(* _configure(a): configure() builds apps/<unique name of the cache file    *)
(* as it is NOW> (idempotent) or returns None when the file is gone;        *)
(* symlink_safe(running/a) replaces an existing link                        *)
Configure(s, a) ==
  IF a \notin DOMAIN s.cache \/ ~Alive(s) THEN s
  ELSE LET c == Cont(a, s.cache[a])
           s1 == IF c \in DOMAIN s.apps THEN s ELSE Spend([s EXCEPT !.apps = Put(@, c, {})])
       IN IF ~Alive(s1) THEN s1 ELSE Spend([s1 EXCEPT !.running = Put(@, a, c)])

(* one iteration of the first loop of _synchronize, for container c of      *)
(* instance a.  left = "a is still a key of the local dict `cached`",       *)
(* cg = the generation that dict maps a to (0: none).                       *)
SyncOne(s, c, left, cg, D) ==
  LET a == c.i
      genFix == "sync_generation" \notin D
      nameFix == "cleanup_name" \notin D
      cachedThis == left /\ cg = c.g
      runHit == IF genFix THEN a \in DOMAIN s.running /\ s.running[a] = c
                ELSE RunExists(s, a)
      clnHit == IF genFix
                THEN \/ NameI(a) \in DOMAIN s.cleanup /\ s.cleanup[NameI(a)] = c
                     \/ nameFix /\ NameC(c) \in DOMAIN s.cleanup
                ELSE \/ ClnExists(s, NameI(a))
                     \/ nameFix /\ ClnExists(s, NameC(c))
      lnk == IF genFix /\ NameI(a) \in DOMAIN s.cleanup THEN NameC(c) ELSE NameI(a)
      keep == IF cachedThis THEN FALSE ELSE left       \* pop only one's own entry
  IN IF runHit
     THEN [s |-> IF cachedThis THEN s ELSE Terminate(s, a),
           left |-> IF genFix THEN keep ELSE FALSE]
     ELSE IF clnHit
     THEN [s |-> s, left |-> IF genFix THEN keep ELSE FALSE]
     ELSE IF cachedThis /\ ~Finished(s, c)
     THEN [s |-> Configure(s, a), left |-> FALSE]
     ELSE [s |-> IF Alive(s) THEN Spend(LinkPut(s, lnk, c)) ELSE s, left |-> keep]

RECURSIVE SyncLoop(_, _, _, _, _, _)
SyncLoop(s, a, gens, left, cg, D) ==
  IF gens = <<>> THEN [s |-> s, left |-> left]
  ELSE LET r == SyncOne(s, Cont(a, Head(gens)), left, cg, D)
       IN SyncLoop(r.s, a, Tail(gens), r.left, cg, D)

(* _synchronize restricted to instance a: its containers in apps/ in the    *)
(* order ord (a sequence of generations; Python iterates a set of names),   *)
(* then the second loop configures a if it is still in `cached`.  An        *)
(* iteration touches only names derived from its own instance, so the       *)
(* instances are independent.                                               *)
ContGens(s, a) == {c.g : c \in {x \in DOMAIN s.apps : x.i = a}}
SyncInst(s, a, ord, D) ==
  LET r == SyncLoop(s, a, ord, a \in DOMAIN s.cache, CacheGen(s, a), D)
  IN IF r.left THEN Configure(r.s, a) ELSE r.s

SyncInsts(s) == {c.i : c \in DOMAIN s.apps} \cup DOMAIN s.cache

(* the whole of _synchronize, in its real order: the first loop over every  *)
(* container directory, then the second loop over what is left in `cached`  *)
(* (the order matters only when the run is cut by a crash)                  *)
RECURSIVE SyncFold1(_, _, _, _, _, _)
SyncFold1(s, s0, insts, ords, D, left) ==
  IF insts = {} THEN [s |-> s, left |-> left]
  ELSE LET a == CHOOSE x \in insts : TRUE
           r == SyncLoop(s, a, ords[a], a \in DOMAIN s0.cache, CacheGen(s0, a), D)
       IN SyncFold1(r.s, s0, insts \ {a}, ords, D, IF r.left THEN left \cup {a} ELSE left)
RECURSIVE SyncFold2(_, _)
SyncFold2(s, insts) ==
  IF insts = {} THEN s
  ELSE LET a == CHOOSE x \in insts : TRUE IN SyncFold2(Configure(s, a), insts \ {a})

(* ords: [instance -> sequence enumerating ContGens(s, instance)]           *)
Sync(s, ords, D) ==
  LET r == SyncFold1(s, s, SyncInsts(s), ords, D, {}) IN SyncFold2(r.s, r.left)

RECURSIVE PermSeqs(_)
PermSeqs(S) == IF S = {} THEN {<<>>}
               ELSE UNION {{<<x>> \o q : q \in PermSeqs(S \ {x})} : x \in S}

Pop(s) == [s EXCEPT !.pending = Tail(@)]

(* the container of the entry cached for a exists already and has finished  *)
(* or is in cleanup (under either name)                                     *)
IsDone(s, a) == /\ a \in DOMAIN s.cache
                /\ LET c == Cont(a, s.cache[a]) IN
                   /\ Live(s, c)
                   /\ \/ Finished(s, c)
                      \/ NameC(c) \in DOMAIN s.cleanup
                      \/ NameI(a) \in DOMAIN s.cleanup /\ s.cleanup[NameI(a)] = c

(* the three watcher callbacks; the event is the head of s.pending          *)
IsFirstSync(s, nm) == nm = READY /\ ~s.active
DoOnCreated(s, nm, ords, D) ==
  LET p == Pop(s) IN
  IF nm = READY
  THEN IF p.active THEN p ELSE Sync([p EXCEPT !.active = TRUE], ords, D)
  ELSE IF ~p.active THEN p
  ELSE IF nm \in DOMAIN p.running THEN p          \* os.path.islink
  ELSE IF "created_done" \notin D /\ IsDone(p, nm) THEN p
  ELSE Configure(p, nm)

DoOnModified(s, nm, ords, D) ==
  LET p == Pop(s) IN
  IF nm = READY
  THEN IF p.active THEN p ELSE Sync([p EXCEPT !.active = TRUE], ords, D)
  ELSE p

DoOnDeleted(s, nm, D) ==
  LET p == Pop(s) IN
  IF nm = READY THEN [p EXCEPT !.active = FALSE]
  ELSE IF ~p.active THEN p
  ELSE Terminate(p, nm)

(* the manager is killed inside the handler of the next event, after k of   *)
(* the handler's effects, and started again (nothing is cleared; the new    *)
(* process is inactive and has a fresh watch)                               *)
DoCrash(s, k, ords, D) ==
  LET e == Head(s.pending)
      s0 == [s EXCEPT !.fuel = k]
      r == IF e.k = "C" THEN DoOnCreated(s0, e.n, ords, D)
           ELSE IF e.k = "M" THEN DoOnModified(s0, e.n, ords, D)
           ELSE DoOnDeleted(s0, e.n, D)
  IN DoRestart([r EXCEPT !.fuel = -1])

-----------------------------------------------------------------------------
(* The property, clause by clause, as predicates on one step (pre, post).   *)
(* kind = "sync"  the step ran _synchronize                                 *)
(*        "term"  the step was _on_deleted(a) of an active manager          *)
(*        "other" anything else                                             *)

(* "a configured container is referenced by at most one link: its           *)
(*  instance's running link or a single cleanup link" - charged to the      *)
(*  step that adds the second link                                          *)
C13oneLink(pre, post) ==
  \A c \in Targets(post) : NLinks(post, c) > 1 => NLinks(post, c) <= NLinks(pre, c)

(* "after a synchronisation the running links correspond exactly to the     *)
(*  cached manifests that can be configured".  must: cached and either not  *)
(*  configured yet, or configured, not finished and not handed to cleanup.   *)
(*  may: additionally a cached container that was linked already (a         *)
(*  finished one waits there for the monitor).  Dangling links are not      *)
(*  counted (narrowing).                                                    *)
CachedCont(s, a) == Cont(a, s.cache[a])
MustRun(s) == {a \in DOMAIN s.cache :
                 LET c == CachedCont(s, a) IN
                 \/ ~Live(s, c)
                 \/ ~Finished(s, c) /\ ClnNames(s, c) = {}}
MayRun(s) == MustRun(s) \cup {a \in DOMAIN s.cache :
                                a \in DOMAIN s.running /\ s.running[a] = CachedCont(s, a)}
LiveRunning(s) == {a \in DOMAIN s.running : Live(s, s.running[a])}
C13sync(pre, kind, post) ==
  kind = "sync" =>
    /\ MustRun(pre) \subseteq LiveRunning(post)
    /\ LiveRunning(post) \subseteq MayRun(pre)
    /\ \A a \in LiveRunning(post) : post.running[a] = CachedCont(pre, a)

(* "a container whose cache entry disappeared is handed to cleanup":        *)
(*  after a synchronisation every container directory whose entry is gone   *)
(*  (or belongs to another generation) has no running link and, while it    *)
(*  exists, a cleanup link; after _on_deleted(a) the same for the container *)
(*  that ran as a                                                           *)
Orphaned(s, c) == CacheGen(s, c.i) # c.g
HandedOver(post, c) == /\ RunNames(post, c) = {}
                       /\ Live(post, c) => ClnNames(post, c) # {}
C13handoff(pre, kind, arg, post) ==
  /\ kind = "sync" => \A c \in DOMAIN pre.apps : Orphaned(pre, c) => HandedOver(post, c)
  /\ kind = "term" => (arg \in DOMAIN pre.running /\ Orphaned(pre, pre.running[arg])
                         => HandedOver(post, pre.running[arg]))

(* "a container that already finished, aborted or ran out of memory is      *)
(*  never started again": no step gives a running link to a finished        *)
(*  container that had none                                                 *)
C13noRestart(pre, post) ==
  \A c \in DOMAIN pre.apps :
     Finished(pre, c) /\ RunNames(pre, c) = {} => RunNames(post, c) = {}

(* "a running container whose manifest is unchanged is left running"        *)
(*  (narrowed to containers that have not finished)                         *)
Kept(s) == {a \in DOMAIN s.running : /\ a \in DOMAIN s.cache
                                     /\ s.running[a] = CachedCont(s, a)
                                     /\ Live(s, s.running[a])
                                     /\ ~Finished(s, s.running[a])}
C13keep(pre, kind, post) ==
  kind = "sync" => \A a \in Kept(pre) : a \in DOMAIN post.running /\ post.running[a] = pre.running[a]

StepOK(pre, kind, arg, post) ==
  /\ C13oneLink(pre, post) /\ C13sync(pre, kind, post) /\ C13handoff(pre, kind, arg, post)
  /\ C13noRestart(pre, post) /\ C13keep(pre, kind, post)

-----------------------------------------------------------------------------
(* PART 2 - the state machine                                               *)
(* n.ev     environment events so far                                       *)
(* n.gen    generations handed out per instance                             *)
(* n.phase  "sync" between the handler that starts a first sync and the     *)
(*          Synchronize step (nothing else is enabled in between: handlers  *)
(*          are atomic, as the driver runs them; the split only gives       *)
(*          _synchronize its own action)                                    *)

Init == /\ st = State0
        /\ n = [ev |-> 0, gen |-> [a \in Instances |-> 0], phase |-> "idle"]

Idle == n.phase = "idle"
Env == Idle /\ n.ev < MaxEvents
Tick == [n EXCEPT !.ev = @ + 1]

CacheCreate(a) == /\ Env /\ n.gen[a] < MaxGen /\ a \notin DOMAIN st.cache
                  /\ st' = DoCacheCreate(st, a, n.gen[a] + 1)
                  /\ n' = [n EXCEPT !.ev = @ + 1, !.gen[a] = @ + 1]
(* the entry is replaced in place (eventmgr re-caching an instance that was  *)
(* evicted and placed here again while it was disconnected): rename over the *)
(* old file - a new generation, one CREATED event, NO delete event          *)
CacheReplace(a) == /\ Env /\ n.gen[a] < MaxGen /\ a \in DOMAIN st.cache
                   /\ st' = DoCacheCreate(st, a, n.gen[a] + 1)
                   /\ n' = [n EXCEPT !.ev = @ + 1, !.gen[a] = @ + 1]
CacheDelete(a) == /\ Env /\ a \in DOMAIN st.cache
                  /\ st' = DoCacheDelete(st, a) /\ n' = Tick
ReadyOn == /\ Env /\ st' = DoReadyOn(st) /\ n' = Tick
ReadyOff == /\ Env /\ st.ready /\ st' = DoReadyOff(st) /\ n' = Tick
ContainerFinishes(c, m) == /\ Env /\ CanFinish(st, c)
                           /\ st' = DoFinish(st, c, m) /\ n' = Tick
MonitorCleanup(c) == /\ Idle /\ c \in st.tomb
                     /\ IF c.i \in DOMAIN st.running /\ ~LateMonitor
                        THEN st.running[c.i] = c ELSE TRUE
                     /\ st' = DoMonitor(st, c) /\ UNCHANGED n
CleanupCompletes(nm) == /\ Idle /\ nm \in DOMAIN st.cleanup
                        /\ CleanupSvc => st.svc /\ nm \in st.cleaning   \* run by its cleaning app
                        /\ st' = DoCleanupDone(st, nm) /\ UNCHANGED n
ManagerRestart == /\ Env /\ st' = DoRestart(st) /\ n' = Tick
NodeStart == /\ Env /\ st' = DoNodeStart(st) /\ n' = Tick
(* extension: the cleanup service starts (again) / handles one event        *)
CleanupStart == /\ CleanupSvc /\ Env /\ st' = DoCleanupStart(st) /\ n' = Tick
CleanupEvent == /\ Idle /\ st.svc /\ st.cpending # <<>>
                /\ st' = DoCleanupEvent(st) /\ UNCHANGED n

Head1(s) == Head(s.pending)
NoOrds == EmptyFn
(* a handler that starts a first sync only flips `active` here; the         *)
(* Synchronize step that must follow does the rest                          *)
OnCreated(nm) == /\ Idle /\ st.pending # <<>> /\ Head1(st) = Ev("C", nm)
                 /\ IF IsFirstSync(st, nm)
                    THEN st' = [Pop(st) EXCEPT !.active = TRUE] /\ n' = [n EXCEPT !.phase = "sync"]
                    ELSE st' = DoOnCreated(st, nm, NoOrds, Defects) /\ UNCHANGED n
OnModified(nm) == /\ Idle /\ st.pending # <<>> /\ Head1(st) = Ev("M", nm)
                  /\ IF IsFirstSync(st, nm)
                     THEN st' = [Pop(st) EXCEPT !.active = TRUE] /\ n' = [n EXCEPT !.phase = "sync"]
                     ELSE st' = DoOnModified(st, nm, NoOrds, Defects) /\ UNCHANGED n
OnDeleted(nm) == /\ Idle /\ st.pending # <<>> /\ Head1(st) = Ev("D", nm)
                 /\ st' = DoOnDeleted(st, nm, Defects) /\ UNCHANGED n

OrdChoices(s) == LET R(a) == PermSeqs(ContGens(s, a)) IN
  {f \in [SyncInsts(s) -> UNION {R(a) : a \in SyncInsts(s)}] : \A a \in SyncInsts(s) : f[a] \in R(a)}
(* kill -9 / OOM of the manager inside a handler, then its restart           *)
CrashFuel == 0..5
Crash(k) == /\ Env /\ st.pending # <<>>
            /\ \E ords \in OrdChoices(st) : st' = DoCrash(st, k, ords, Defects)
            /\ n' = Tick
Synchronize == /\ n.phase = "sync"
               /\ \E ords \in OrdChoices(st) : st' = Sync(st, ords, Defects)
               /\ n' = [n EXCEPT !.phase = "idle"]

Names == Instances \cup {READY}
AllConts == {Cont(a, g) : a \in Instances, g \in 1..MaxGen}
(* (constant bounds: TLC labels a step with the action and its arguments    *)
(* only when the quantifier ranges over a constant set)                     *)
AllLinkNames == {NameI(a) : a \in Instances} \cup {NameC(c) : c \in AllConts}

Next ==
  \/ \E a \in Instances : CacheCreate(a)
  \/ \E a \in Instances : CacheReplace(a)
  \/ \E a \in Instances : CacheDelete(a)
  \/ ReadyOn
  \/ ReadyOff
  \/ \E c \in AllConts, m \in FinMarkers \cup {"none"} : ContainerFinishes(c, m)
  \/ \E c \in AllConts : MonitorCleanup(c)
  \/ \E nm \in AllLinkNames : CleanupCompletes(nm)
  \/ ManagerRestart
  \/ NodeStart
  \/ \E k \in CrashFuel : Crash(k)
  \/ CleanupStart
  \/ CleanupEvent
  \/ \E nm \in Names : OnCreated(nm)
  \/ \E nm \in Names : OnModified(nm)
  \/ \E nm \in Names : OnDeleted(nm)
  \/ Synchronize

Spec == Init /\ [][Next]_vars

-----------------------------------------------------------------------------
(* C13 on the model: every step satisfies the clauses that apply to it      *)
StepKind == IF n.phase = "sync" /\ n'.phase = "idle" THEN "sync"
            ELSE IF /\ Idle /\ n' = n /\ st.pending # <<>> /\ st'.pending = Tail(st.pending)
                    /\ Head1(st).k = "D" /\ Head1(st).n # READY /\ st.active
                 THEN "term" ELSE "other"
StepArg == IF st.pending # <<>> THEN Head1(st).n ELSE ""

PropOneLink == [][C13oneLink(st, st')]_vars
PropSync == [][C13sync(st, StepKind, st')]_vars
PropHandoff == [][C13handoff(st, StepKind, StepArg, st')]_vars
PropNoRestart == [][C13noRestart(st, st')]_vars
PropKeep == [][C13keep(st, StepKind, st')]_vars

-----------------------------------------------------------------------------
(* Extension: what the cleanup service guarantees (not part of C13).        *)
(* a cleaning link never dangles                                            *)
InvCleaning == st.cleaning \subseteq st.capps
(* with the service running and nothing left to handle, cleaning apps and   *)
(* cleanup links correspond one to one                                      *)
InvQuiescent == st.svc /\ st.cpending = <<>> =>
                  st.cleaning = DOMAIN st.cleanup /\ st.capps = st.cleaning
(* _sync establishes that correspondence from any reachable state and is    *)
(* idempotent                                                               *)
InvSync == LET r == CleanupSyncOp(st) IN
           /\ r.cleaning = DOMAIN st.cleanup /\ r.capps = r.cleaning
           /\ CleanupSyncOp(r) = r
           /\ r.cleanup = st.cleanup /\ r.apps = st.apps /\ r.running = st.running
(* invoke removes exactly its own link and at most the directory that link  *)
(* pointed to; no other step removes a container directory                  *)
IsInvoke(nm) == nm \in DOMAIN st.cleanup /\ st' = DoCleanupDone(st, nm)
PropInvoke == [][\A nm \in DOMAIN st.cleanup : IsInvoke(nm) =>
                   /\ DOMAIN st'.cleanup = DOMAIN st.cleanup \ {nm}
                   /\ \A x \in DOMAIN st'.cleanup : st'.cleanup[x] = st.cleanup[x]
                   /\ DOMAIN st.apps \ DOMAIN st'.apps \subseteq {st.cleanup[nm]}
                   /\ st'.running = st.running /\ st'.cleaning = st.cleaning]_vars
PropDirsByInvoke == [][DOMAIN st.apps \ DOMAIN st'.apps # {} =>
                         \E nm \in DOMAIN st.cleanup : IsInvoke(nm)]_vars

(* Witnesses (to be VIOLATED: TLC's counterexample is a history generator).  *)
(* A readiness flip during which a running instance's entry was replaced in *)
(* place: nothing of it handled yet / the deletion of .ready handled.       *)
FlipReplaced(a) == /\ a \in DOMAIN st.running /\ a \in DOMAIN st.cache
                   /\ st.running[a] # Cont(a, st.cache[a]) /\ st.ready
WitnessFlipA == ~ \E a \in Instances :
                    /\ FlipReplaced(a) /\ st.active
                    /\ st.pending = <<Ev("D", READY), Ev("C", a), Ev("C", READY)>>
WitnessFlipB == ~ \E a \in Instances :
                    /\ FlipReplaced(a) /\ ~st.active
                    /\ st.pending = <<Ev("C", a), Ev("C", READY)>>

TypeOK == /\ DOMAIN st.cache \subseteq Instances
          /\ DOMAIN st.apps \subseteq AllConts
          /\ DOMAIN st.running \subseteq Instances
          /\ Range(st.running) \subseteq AllConts
          /\ Range(st.cleanup) \subseteq AllConts
=============================================================================
