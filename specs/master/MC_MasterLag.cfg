SPECIFICATION Spec
CONSTANTS
  Srv = {"s1", "s2"}
  App = {"a1", "a2"}
  SrvSeq <- SrvSeqC
  AppSeq <- AppSeqC
  Cap = 2
  MaxEvents = 4
  MaxCycles = 3
  Defects <- NoDefects
  StartupRace = FALSE
INVARIANT InvNoDup
INVARIANT InvNoAssert
INVARIANT InvSettled
INVARIANT InvView
CHECK_DEADLOCK FALSE
