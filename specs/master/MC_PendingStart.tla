---- MODULE MC_PendingStart ----
EXTENDS PendingStart
McApps == {"a1", "a2"}
McServers == {"s1", "s2"}
====
