---- MODULE MC_Master ----
EXTENDS Master
McSrv == {"s1", "s2"}
McApp == {"a1", "a2"}
McAppSeq == <<"a1", "a2">>
McSrvSeq == <<"s1", "s2">>
McNoDefects == {}
McDefTwoPass == {"init_not_two_pass"}
McDefNames == {"init_names_only"}
====
