---------------------------- MODULE MasterCore ----------------------------
(* Clauses of C09, C10, C11 over the two projections the L2 harness logs and *)
(* the Master.tla model keeps:                                               *)
(*  store.placement[s].apps[a] = [identity, expires, ctime]                  *)
(*  store.presence[s] = ctime of the presence node, store.scheduled (set)    *)
(*  model.alive, model.servers[s] = [cap, label, traits, state, apps]        *)
(*  model.apps[a] = [server, identity, expiry, demand, label, traits]        *)
(* None: "" / -1.                                                            *)
EXTENDS Naturals, Integers, Sequences, FiniteSets, FiniteSetsExt, TLC

Stored(store) == UNION {{<<s, a>> : a \in DOMAIN store.placement[s].apps}
                        : s \in DOMAIN store.placement}
ModelPlaced(model) == {<<model.apps[a].server, a>> : a \in {x \in DOMAIN model.apps :
                                                               model.apps[x].server # ""}}
Node(store, s, a) == store.placement[s].apps[a]

C09exists(store, model) == ModelPlaced(model) \subseteq Stored(store)
C09noExtra(store, model) == Stored(store) \subseteq ModelPlaced(model)
C09identity(store, model) ==
  \A p \in Stored(store) \cap ModelPlaced(model) :
    Node(store, p[1], p[2]).identity = model.apps[p[2]].identity
C09expiry(store, model) ==
  \A p \in Stored(store) \cap ModelPlaced(model) :
    Node(store, p[1], p[2]).expires = model.apps[p[2]].expiry

C09ex(store, model) == ModelPlaced(model) # {}

(* C10: in EVERY stored state *)
ServersOf(store, a) == {s \in DOMAIN store.placement : a \in DOMAIN store.placement[s].apps}
C10dup(store) == \A p \in Stored(store) : Cardinality(ServersOf(store, p[2])) = 1

(* C11: pre = store before the restart, loaded = model right after load_model() *)
RecordedOn(pre, s) == DOMAIN pre.placement[s].apps

FitsCap(pre, loaded, s) ==
  LET rec == {a \in RecordedOn(pre, s) : a \in DOMAIN loaded.apps}
      dims == DOMAIN loaded.servers[s].cap IN
  \A d \in dims :
    FoldSet(LAMBDA a, acc : acc + loaded.apps[a].demand[d], 0, rec) <= loaded.servers[s].cap[d]

Healthy(pre, loaded, s, a) ==
  /\ s \in DOMAIN loaded.servers
  /\ s \in DOMAIN pre.presence
  /\ pre.presence[s] <= Node(pre, s, a).ctime
  /\ a \in pre.scheduled /\ a \in DOMAIN loaded.apps
  /\ loaded.apps[a].label = loaded.servers[s].label
  /\ loaded.apps[a].traits \subseteq loaded.servers[s].traits
  /\ \A b \in RecordedOn(pre, s) : b \in DOMAIN loaded.apps =>
        /\ loaded.apps[b].label = loaded.servers[s].label
        /\ loaded.apps[b].traits \subseteq loaded.servers[s].traits
  /\ FitsCap(pre, loaded, s)
  /\ Cardinality(ServersOf(pre, a)) = 1

C11kept(pre, loaded) ==
  \A p \in Stored(pre) : Healthy(pre, loaded, p[1], p[2]) => loaded.apps[p[2]].server = p[1]
C11identity(pre, loaded) ==
  \A p \in Stored(pre) : (Healthy(pre, loaded, p[1], p[2]) /\ loaded.apps[p[2]].server = p[1]) =>
    loaded.apps[p[2]].identity = Node(pre, p[1], p[2]).identity
C11expiry(pre, loaded) ==
  \A p \in Stored(pre) : (Healthy(pre, loaded, p[1], p[2]) /\ loaded.apps[p[2]].server = p[1]) =>
    loaded.apps[p[2]].expiry = Node(pre, p[1], p[2]).expires
C11nothingNew(pre, loaded) == ModelPlaced(loaded) \subseteq Stored(pre)
C11ex(pre, loaded) == \E p \in Stored(pre) : Healthy(pre, loaded, p[1], p[2])
=============================================================================
