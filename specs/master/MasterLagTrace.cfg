SPECIFICATION Spec
CHECK_DEADLOCK FALSE
CONSTANTS
  Srv = {"s1", "s2"}
  App = {"a1", "a2"}
  SrvSeq <- SrvSeqC
  AppSeq <- AppSeqC
  Cap = 2
  Defects <- NoDefectsC
