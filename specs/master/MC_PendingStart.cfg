INIT Init
NEXT Next
CHECK_DEADLOCK FALSE
CONSTANTS
 Apps <- McApps
 Servers <- McServers

INVARIANT InvMarked
INVARIANT InvWatched
PROPERTY FreezeJustified
