---------------------------- MODULE MasterTrace ----------------------------
(* Trace specification for recorded executions of the real Master on the     *)
(* in-memory ZooKeeper (harness/master_l2.py).  TOTAL: every line is         *)
(* consumed and judged; see DESIGN.md 4.3.                                   *)
EXTENDS MasterCore, TraceLib, Json, IOUtils

Batch == JsonDeserialize(IOEnv.TRACE_FILE)
Traces == Batch.traces

VARIABLES t, i

CanonStore(j) == [placement |-> j.placement, presence |-> j.presence,
                  scheduled |-> SetOf(j.scheduled)]
CanonModel(j) ==
  [alive |-> j.alive,
   servers |-> [s \in DOMAIN j.servers |->
                  [cap |-> j.servers[s].cap, label |-> j.servers[s].label,
                   traits |-> SetOf(j.servers[s].traits), state |-> j.servers[s].state,
                   apps |-> SetOf(j.servers[s].apps)]],
   apps |-> [a \in DOMAIN j.apps |->
               [server |-> j.apps[a].server, identity |-> j.apps[a].identity,
                expiry |-> j.apps[a].expiry, demand |-> j.apps[a].demand,
                label |-> j.apps[a].label, traits |-> SetOf(j.apps[a].traits)]]]

F(name, holds) == IF holds THEN {} ELSE {name}
E(name, cond) == IF cond THEN {name} ELSE {}

Published(line) == LET st == CanonStore(line.store) m == CanonModel(line.model) IN
  F("C09.exists", C09exists(st, m)) \cup F("C09.noExtra", C09noExtra(st, m))
  \cup F("C09.identity", C09identity(st, m)) \cup F("C09.expiry", C09expiry(st, m))

Renamed(fails) == {IF f = "C09.exists" THEN "C10.equal.exists"
                   ELSE IF f = "C09.noExtra" THEN "C10.equal.noExtra"
                   ELSE IF f = "C09.identity" THEN "C10.equal.identity"
                   ELSE "C10.equal.expiry" : f \in fails}

(* a registered, present server that holds placement is part of the model the   *)
(* new master loads (it cannot keep an instance on a server it does not load)   *)
ServersLoaded(line) ==
  ("loadable" \in DOMAIN line.prestore) =>
    \A s \in SetOf(line.prestore.loadable) \cap DOMAIN line.prestore.presence :
      (s \in DOMAIN line.prestore.placement /\ DOMAIN line.prestore.placement[s].apps # {})
        => s \in DOMAIN line.loaded.servers

(* the loaded model with the traits as DECLARED (manifests + allocation document *)
(* for the instances, the registration a new master reads for the servers): a    *)
(* trait table built in another order must not make a recorded placement look    *)
(* unhealthy                                                                     *)
DeclTraits(line, m) ==
  IF "decl_traits" \notin DOMAIN line THEN m
  ELSE [m EXCEPT
          !.apps = [a \in DOMAIN m.apps |->
                      IF a \in DOMAIN line.decl_traits.apps
                      THEN [m.apps[a] EXCEPT !.traits = SetOf(line.decl_traits.apps[a])] ELSE m.apps[a]],
          !.servers = [s \in DOMAIN m.servers |->
                      IF s \in DOMAIN line.decl_traits.servers
                      THEN [m.servers[s] EXCEPT !.traits = SetOf(line.decl_traits.servers[s])]
                      ELSE m.servers[s]]]

Restarted(line) == LET pre == CanonStore(line.prestore) ld == DeclTraits(line, CanonModel(line.loaded)) IN
  F("C11.kept", C11kept(pre, ld) /\ ServersLoaded(line)) \cup F("C11.identity", C11identity(pre, ld))
  \cup F("C11.expiry", C11expiry(pre, ld)) \cup F("C11.nothingNew", C11nothingNew(pre, ld))

(* C08 across a fail-over: an instance recorded under a server that is DOWN    *)
(* (no presence node) is still placed there when the new master has loaded its  *)
(* model - whether its data retention has run out is for the next cycle to      *)
(* decide, not for the restart.  Restricted to instances whose restore cannot   *)
(* legitimately fail: not schedule-once, no lease (the reboot date is not       *)
(* re-checked for them), no affinity limits, partition and traits match,        *)
(* everything recorded under the server fits, recorded once.                    *)
DownKept(line) ==
  LET pre == CanonStore(line.prestore) ld == CanonModel(line.loaded) IN
  ("decl_apps" \in DOMAIN line) =>
  \A p \in Stored(pre) :
    LET s == p[1] a == p[2] IN
    (/\ s \in DOMAIN ld.servers /\ s \notin DOMAIN pre.presence
     /\ a \in pre.scheduled /\ a \in DOMAIN ld.apps /\ a \in DOMAIN line.decl_apps
     /\ ~line.decl_apps[a].once /\ line.decl_apps[a].lease = 0
     /\ DOMAIN line.decl_apps[a].limits = {}
     /\ \A b \in RecordedOn(pre, s) : b \in DOMAIN ld.apps =>
           /\ ld.apps[b].label = ld.servers[s].label
           /\ ld.apps[b].traits \subseteq ld.servers[s].traits
           /\ b \in DOMAIN line.decl_apps /\ DOMAIN line.decl_apps[b].limits = {}
     /\ FitsCap(pre, ld, s)
     /\ Cardinality(ServersOf(pre, a)) = 1)
      => ld.apps[a].server = s

(* extension (not a listed property): Master._check_pending_start is a step of *)
(* PendingStart.tla.  Times in ms.                                            *)
PendingOf(m) == [a \in DOMAIN m.pending |->
                   [server |-> m.pending[a][1], since |-> m.pending[a][2]]]
IntegrityExplained(prev, line) ==
  LET pm == prev.model m == line.model
      placed == [a \in DOMAIN pm.apps |-> pm.apps[a].server]
      sstate == [s \in DOMAIN pm.servers |-> pm.servers[s].state]
      running == SetOf(prev.store.running)
      now == line.clock
      ps2 == [a \in DOMAIN placed \cap
                {x \in DOMAIN placed : /\ x \notin running /\ placed[x] # ""
                                        /\ placed[x] \in DOMAIN sstate /\ sstate[placed[x]] # "down"} |->
                IF a \in DOMAIN pm.pending /\ pm.pending[a][1] = placed[a]
                THEN [server |-> pm.pending[a][1], since |-> pm.pending[a][2]]
                ELSE [server |-> placed[a], since |-> now]]
      late == {a \in DOMAIN ps2 : now > ps2[a].since + 300000}
      frozen == {ps2[a].server : a \in late} \cap DOMAIN sstate
      marked == {a \in late : placed[a] = ps2[a].server}
  IN /\ PendingOf(m) = ps2
     /\ \A s \in DOMAIN m.servers :
          m.servers[s].state = (IF s \in frozen THEN "frozen" ELSE sstate[s])
     /\ \A a \in DOMAIN m.apps :
          m.apps[a].unschedule = (a \in marked \/ (a \in DOMAIN pm.apps /\ pm.apps[a].unschedule))

(* the server state record published in /placement/<server> is the state the    *)
(* model holds (what `treadmill admin` and a restarted master read)             *)
StateRecordOk(line) ==
  \A s \in DOMAIN line.model.servers :
    s \in DOMAIN line.store.placement =>
      \* (a server that never reported has no record yet: it counts as down)
      /\ IF line.store.placement[s].state = "" THEN line.model.servers[s].state = "down"
         ELSE line.store.placement[s].state = line.model.servers[s].state
      \* (the time matters - and is kept in step - only while the server is not up:
      \* a re-created up server keeps its construction time in the model)
      /\ (line.model.servers[s].state # "up" /\ line.store.placement[s].state # "") =>
            line.store.placement[s].since = line.model.servers[s].since

AfterCrash(prev) == "crashed" \in DOMAIN prev /\ prev.crashed

Verdict(prev, line) ==
  LET dup == F("C10.dup", C10dup(CanonStore(line.store)))
      isRestart == line.ev \in {"Restart", "CrashRestart"}
      completed == IF "crashed" \in DOMAIN line THEN ~line.crashed ELSE TRUE IN
  IF "exc" \in DOMAIN line
  THEN [fail |-> dup \cup (IF isRestart THEN {"C10.restartOk"} ELSE {"exc"})
                 \cup (IF isRestart /\ "loaded" \in DOMAIN line /\ line.loaded.alive
                       THEN Restarted(line) ELSE {}),
        ex |-> {}]
  ELSE IF isRestart /\ completed
  THEN [fail |-> dup \cup Published(line) \cup Renamed(Published(line)) \cup Restarted(line)
                 \cup F("C08.keepRestart", DownKept(line)),
        ex |-> E("C09", C09ex(CanonStore(line.store), CanonModel(line.model)))
               \cup E("C10", AfterCrash(prev))
               \cup E("C11", C11ex(CanonStore(line.prestore), CanonModel(line.loaded)))]
  ELSE IF line.ev \in {"Cycle", "CrashCycle", "FaultCycle"} /\ completed /\ line.model.alive
  THEN [fail |-> dup \cup Published(line) \cup F("C08.stateRecord", StateRecordOk(line)),
        ex |-> E("C09", C09ex(CanonStore(line.store), CanonModel(line.model)))]
  ELSE IF line.ev = "Integrity" /\ prev.model.alive
  THEN [fail |-> dup \cup F("ext.pendingStart", IntegrityExplained(prev, line)),
        ex |-> E("ext.freeze", \E s \in DOMAIN line.model.servers :
                      line.model.servers[s].state = "frozen"
                      /\ s \in DOMAIN prev.model.servers /\ prev.model.servers[s].state # "frozen")]
  ELSE [fail |-> dup, ex |-> E("C10", "crashed" \in DOMAIN line /\ line.crashed)]

Init == t \in DOMAIN Traces /\ i = 1

Next == /\ i < Len(Traces[t].lines)
        /\ i' = i + 1
        /\ t' = t
        /\ LET v == Verdict(Traces[t].lines[i], Traces[t].lines[i + 1]) IN
           PrintT(ToJson([tid |-> Traces[t].tid, i |-> i, fail |-> v.fail, ex |-> v.ex]))

Spec == Init /\ [][Next]_<<t, i>>
=============================================================================
