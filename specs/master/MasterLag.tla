----------------------------- MODULE MasterLag ------------------------------
(* Watch latency.  Master.tla applies a ZooKeeper-level event to the store   *)
(* and to the master's model in ONE step (the quantifier of C09: "each        *)
(* followed by a master cycle").  The real master learns of a change only     *)
(* when the watch / event node is delivered to its queue (Master.process),    *)
(* the watched paths are delivered in no particular order, and run_loop may   *)
(* publish a cycle computed on a view that lags the store.  This module is    *)
(* the publication model with that lag made explicit:                         *)
(*                                                                           *)
(*   environment actions change ONLY the store and leave a notification       *)
(*   (dirty path / servers event);  Deliver* actions are the master's         *)
(*   handlers (scheduled watch, presence watch, `servers` event ->            *)
(*   Loader.reload_server);  Cycle may run with notifications pending.        *)
(*                                                                           *)
(* Administrators and the master both write under /placement:                 *)
(* masterapi.delete_server removes the server's placement node, create_server *)
(* re-creates it empty, the master's put re-creates missing parents.  The     *)
(* model found (and the code reproduced) three defects of the pinned tree,    *)
(* each kept as a switch:                                                     *)
(*   "integrity_first_seen"  check_placement_integrity cross-checks the model *)
(*                           against the copy it has just removed             *)
(*   "init_known_only"       init_schedule does not visit placement nodes of  *)
(*                           servers outside its model                        *)
(*   "drop_no_withdraw"      reload_server drops a deleted server without     *)
(*                           withdrawing what it published under it          *)
(* and one a seeded change introduced (never in the pinned tree):             *)
(*   "apps_event_no_unpublish"  an `apps` event naming an instance deleted     *)
(*                           meanwhile removes it from the model only          *)
EXTENDS MasterLagOps

CONSTANTS MaxEvents, MaxCycles, StartupRace

VARIABLES S,      \* [store, m, dirty, evq, pub, phase, err] (MasterLagOps)
                  \*  store = [pl: [Srv -> SUBSET App], rec: [Srv -> {"no","bare","data"}],
                  \*           pres: SUBSET Srv, sched: SUBSET App]
                  \*           ("bare": created by an administrator, capacity not yet reported)
                  \*  m     = [alive, srv, cap, up, apps, placed] - the running master's model
                  \*  dirty = watched paths with an undelivered change
                  \*  evq   = servers named by undelivered `servers` events
                  \*  aq    = instances named by undelivered `apps` events
                  \*  pub   = storage writes still to be issued by the current operation
                  \*  phase = "idle" | "pub" | "load" | "init" | "down"
                  \*  err   = a NEW master failed its own integrity check
          fresh,  \* a publication has just completed and nothing happened since
          n, nc

vars == <<S, fresh, n, nc>>

Init == S = S0 /\ fresh = FALSE /\ n = 0 /\ nc = 0

-----------------------------------------------------------------------------
(* environment: store only.  Not while a new master starts up: C10 is about   *)
(* the state it was started ON.  With StartupRace = TRUE the environment also  *)
(* acts during start-up: TLC then shows in 8 steps that an administrator       *)
(* deleting a server between the start-up publication and its integrity check  *)
(* makes that check fail - an observation about the self-check, not judged.    *)
EnvGuard == n < MaxEvents /\ (S.phase \in {"load", "init"} => StartupRace)
EnvFrame == n' = n + 1 /\ fresh' = FALSE /\ UNCHANGED nc

Schedule(a) == /\ EnvGuard /\ EnvEnabled(S, "Schedule", <<a>>)
               /\ S' = EnvDo(S, "Schedule", <<a>>) /\ EnvFrame
Unschedule(a) == /\ EnvGuard /\ EnvEnabled(S, "Unschedule", <<a>>)
                 /\ S' = EnvDo(S, "Unschedule", <<a>>) /\ EnvFrame
NodeDown(s) == /\ EnvGuard /\ EnvEnabled(S, "NodeDown", <<s>>)
               /\ S' = EnvDo(S, "NodeDown", <<s>>) /\ EnvFrame
NodeUp(s) == /\ EnvGuard /\ EnvEnabled(S, "NodeUp", <<s>>)
             /\ S' = EnvDo(S, "NodeUp", <<s>>) /\ EnvFrame
DeleteServer(s) == /\ EnvGuard /\ EnvEnabled(S, "DeleteServer", <<s>>)
                   /\ S' = EnvDo(S, "DeleteServer", <<s>>) /\ EnvFrame
CreateServer(s) == /\ EnvGuard /\ EnvEnabled(S, "CreateServer", <<s>>)
                   /\ S' = EnvDo(S, "CreateServer", <<s>>) /\ EnvFrame
AppsEvent(a) == /\ EnvGuard /\ EnvEnabled(S, "AppsEvent", <<a>>)
                /\ S' = EnvDo(S, "AppsEvent", <<a>>) /\ EnvFrame

(* the master's handlers *)
DeliverScheduled ==
  /\ CanHandle(S) /\ "scheduled" \in S.dirty
  /\ S' = DeliverScheduledDo(S) /\ fresh' = FALSE /\ UNCHANGED <<n, nc>>
DeliverPresence ==
  /\ CanHandle(S) /\ "presence" \in S.dirty
  /\ S' = DeliverPresenceDo(S) /\ fresh' = FALSE /\ UNCHANGED <<n, nc>>
DeliverServers(s) ==
  /\ CanHandle(S) /\ s \in S.evq
  /\ S' = DeliverServersDo(S, s) /\ fresh' = FALSE /\ UNCHANGED <<n, nc>>

DeliverApps(a) ==
  /\ CanHandle(S) /\ a \in S.aq
  /\ S' = DeliverAppsDo(S, a) /\ fresh' = FALSE /\ UNCHANGED <<n, nc>>

Cycle(P) ==
  /\ CanHandle(S) /\ LegalP(S.m, P)
  /\ nc < MaxCycles /\ nc' = nc + 1
  /\ S' = CycleDo(S, P) /\ fresh' = FALSE /\ UNCHANGED n

PubStep ==
  /\ S.phase \in {"pub", "load", "init"} /\ S.pub # <<>>
  /\ S' = PubStepDo(S) /\ UNCHANGED <<fresh, n, nc>>

Finish ==
  /\ S.phase \in {"pub", "init"} /\ S.pub = <<>>
  /\ S' = FinishDo(S)
  /\ fresh' = (S'.phase = "idle") /\ UNCHANGED <<n, nc>>

Crash ==
  /\ S.m.alive
  /\ S' = CrashDo(S) /\ fresh' = FALSE /\ UNCHANGED <<n, nc>>

Restart ==
  /\ S.phase = "down"
  /\ nc < MaxCycles /\ nc' = nc + 1
  /\ S' = RestartDo(S) /\ fresh' = FALSE /\ UNCHANGED n

InitSchedule(P) ==
  /\ S.phase = "load" /\ S.pub = <<>> /\ LegalP(S.m, P)
  /\ S' = InitScheduleDo(S, P) /\ UNCHANGED <<fresh, n, nc>>

Next ==
  \/ \E a \in App : Schedule(a)
  \/ \E a \in App : Unschedule(a)
  \/ \E s \in Srv : NodeDown(s)
  \/ \E s \in Srv : NodeUp(s)
  \/ \E s \in Srv : DeleteServer(s)
  \/ \E s \in Srv : CreateServer(s)
  \/ \E a \in App : AppsEvent(a)
  \/ \E a \in App : DeliverApps(a)
  \/ DeliverScheduled \/ DeliverPresence
  \/ \E s \in Srv : DeliverServers(s)
  \/ \E P \in [App -> Srv \cup {""}] : Cycle(P)
  \/ PubStep \/ Finish \/ Crash \/ Restart
  \/ \E P \in [App -> Srv \cup {""}] : InitSchedule(P)

Spec == Init /\ [][Next]_vars

-----------------------------------------------------------------------------
(* C10 under watch latency: in EVERY state no instance has two entries ...   *)
InvNoDup == \A a \in App : Cardinality(ServersOf(S.store, a)) <= 1
(* ... and a NEW master never fails its own integrity check                  *)
InvNoAssert == ~S.err
(* C09 under watch latency: once everything is delivered and a publication   *)
(* has completed, store and model agree exactly                              *)
Quiescent == S.dirty = {} /\ S.evq = {} /\ S.aq = {} /\ fresh /\ S.phase = "idle" /\ S.m.alive
InvSettled == Quiescent =>
  \A s \in Srv, a \in App : (a \in S.store.pl[s]) <=> (S.m.placed[a] = s)
(* the master's view of scheduled instances / servers is the store's once    *)
(* delivered (the handlers are complete)                                     *)
InvView == (S.dirty = {} /\ S.evq = {} /\ S.aq = {} /\ S.m.alive /\ S.phase = "idle") =>
  /\ S.m.apps = S.store.sched
  /\ S.m.srv = {s \in Srv : S.store.rec[s] # "no"}
=============================================================================
