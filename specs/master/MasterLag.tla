----------------------------- MODULE MasterLag ------------------------------
(* Watch latency.  Master.tla applies a ZooKeeper-level event to the store   *)
(* and to the master's model in ONE step (the quantifier of C09: "each        *)
(* followed by a master cycle").  The real master learns of a change only     *)
(* when the watch / event node is delivered to its queue (Master.process),    *)
(* the watched paths are delivered in no particular order, and run_loop may   *)
(* publish a cycle computed on a view that lags the store.  This module is    *)
(* the publication model with that lag made explicit:                         *)
(*                                                                           *)
(*   environment actions change ONLY the store and leave a notification       *)
(*   (dirty path / servers event);  Deliver* actions are the master's         *)
(*   handlers (scheduled watch, presence watch, `servers` event ->            *)
(*   Loader.reload_server);  Cycle may run with notifications pending.        *)
(*                                                                           *)
(* Administrators and the master both write under /placement:                 *)
(* masterapi.delete_server removes the server's placement node, create_server *)
(* re-creates it empty, the master's put re-creates missing parents.  The     *)
(* model found (and the code reproduced) three defects of the pinned tree,    *)
(* each kept as a switch:                                                     *)
(*   "integrity_first_seen"  check_placement_integrity cross-checks the model *)
(*                           against the copy it has just removed             *)
(*   "init_known_only"       init_schedule does not visit placement nodes of  *)
(*                           servers outside its model                        *)
(*   "drop_no_withdraw"      reload_server drops a deleted server without     *)
(*                           withdrawing what it published under it          *)
EXTENDS Naturals, Sequences, FiniteSets, TLC

CONSTANTS Srv, App, SrvSeq, AppSeq, Cap, MaxEvents, MaxCycles, Defects, StartupRace

VARIABLES store,  \* [pl: [Srv -> SUBSET App], rec: [Srv -> {"no","bare","data"}],
                  \*  pres: SUBSET Srv, sched: SUBSET App]
                  \*  ("bare": created by an administrator, capacity not yet reported)
          m,      \* [alive, srv, cap, up, apps, placed] - the running master's model
          dirty,  \* watched paths with an undelivered change: SUBSET {"scheduled","presence"}
          evq,    \* servers named by undelivered `servers` events
          pub,    \* storage writes still to be issued by the current operation
          phase,  \* "idle" | "pub" | "load" | "init" | "down"
          fresh,  \* a publication has just completed and nothing happened since
          err,    \* the master failed its own integrity check
          n, nc

vars == <<store, m, dirty, evq, pub, phase, fresh, err, n, nc>>

Dead == [alive |-> FALSE]
NoPl == [a \in App |-> ""]

Init ==
  /\ store = [pl |-> [s \in Srv |-> {}], rec |-> [s \in Srv |-> "data"], pres |-> Srv, sched |-> {}]
  /\ m = [alive |-> TRUE, srv |-> Srv, cap |-> [s \in Srv |-> Cap], up |-> Srv, apps |-> {},
          placed |-> NoPl]
  /\ dirty = {} /\ evq = {} /\ pub = <<>> /\ phase = "idle" /\ fresh = FALSE /\ err = FALSE
  /\ n = 0 /\ nc = 0

ServersOf(st, a) == {s \in Srv : a \in st.pl[s]}
OnSrv(mm, s) == {a \in App : mm.placed[a] = s}

-----------------------------------------------------------------------------
(* environment: store only *)
(* (not while a new master starts up: C10 is about the state it was started   *)
(* ON.  With StartupRace = TRUE the environment also acts during start-up:     *)
(* TLC then shows in 8 steps that an administrator deleting a server between   *)
(* the start-up publication and its integrity check makes that check fail - an *)
(* observation about the self-check, not judged)                               *)
Ev == /\ n < MaxEvents /\ n' = n + 1 /\ fresh' = FALSE
      /\ (phase \in {"load", "init"} => StartupRace)
      /\ UNCHANGED <<m, pub, phase, err, nc>>

Schedule(a) ==
  /\ a \notin store.sched /\ Ev
  /\ store' = [store EXCEPT !.sched = @ \cup {a}]
  /\ dirty' = dirty \cup {"scheduled"} /\ UNCHANGED evq

Unschedule(a) ==
  /\ a \in store.sched /\ Ev
  /\ store' = [store EXCEPT !.sched = @ \ {a}]
  /\ dirty' = dirty \cup {"scheduled"} /\ UNCHANGED evq

NodeDown(s) ==
  /\ s \in store.pres /\ Ev
  /\ store' = [store EXCEPT !.pres = @ \ {s}]
  /\ dirty' = dirty \cup {"presence"} /\ UNCHANGED evq

(* node registration: capacity record + presence node *)
NodeUp(s) ==
  /\ s \notin store.pres /\ store.rec[s] # "no" /\ Ev
  /\ store' = [store EXCEPT !.pres = @ \cup {s}, !.rec[s] = "data"]
  /\ dirty' = dirty \cup {"presence"} /\ UNCHANGED evq

(* masterapi.delete_server: server record and placement node (recursively) *)
DeleteServer(s) ==
  /\ store.rec[s] # "no" /\ Ev
  /\ store' = [store EXCEPT !.rec[s] = "no", !.pl[s] = {}]
  /\ evq' = evq \cup {s} /\ UNCHANGED dirty

(* masterapi.create_server: a record without capacity *)
CreateServer(s) ==
  /\ store.rec[s] = "no" /\ Ev
  /\ store' = [store EXCEPT !.rec[s] = "bare"]
  /\ evq' = evq \cup {s} /\ UNCHANGED dirty

-----------------------------------------------------------------------------
(* Loader.reload_server(s) on model mm and store st: [m, st] *)
Drop(mm, s) == [mm EXCEPT !.srv = @ \ {s}, !.up = @ \ {s},
                          !.placed = [a \in App |-> IF mm.placed[a] = s THEN "" ELSE mm.placed[a]]]

CapOf(st, s) == IF st.rec[s] = "data" THEN Cap ELSE 0

RECURSIVE TakeFit(_, _, _)
TakeFit(seq, S, k) ==    \* the first k elements of seq that are in S
  IF seq = <<>> \/ k = 0 THEN {}
  ELSE IF Head(seq) \in S THEN {Head(seq)} \cup TakeFit(Tail(seq), S, k - 1)
  ELSE TakeFit(Tail(seq), S, k)

(* "server modified, replacing": remove, load as new, restore_placement from   *)
(* what is stored under it (only when the model had instances on it)           *)
Replace(mm, st, s) ==
  LET had == OnSrv(mm, s) # {}
      base == [mm EXCEPT !.cap[s] = CapOf(st, s),
                         !.up = IF s \in st.pres THEN @ \cup {s} ELSE @ \ {s},
                         !.placed = [a \in App |-> IF mm.placed[a] = s THEN "" ELSE mm.placed[a]]]
      keepable == {a \in st.pl[s] \cap mm.apps : base.placed[a] = ""}
      restored == TakeFit(AppSeq, keepable, CapOf(st, s))
  IN IF ~had THEN [m |-> base, st |-> st]
     ELSE [m |-> [base EXCEPT !.placed = [a \in App |-> IF a \in restored THEN s ELSE base.placed[a]]],
           st |-> [st EXCEPT !.pl[s] = restored]]

Reload(mm, st, s) ==
  IF s \notin mm.srv
  THEN IF st.rec[s] # "no"
       THEN [m |-> [mm EXCEPT !.srv = @ \cup {s}, !.cap[s] = CapOf(st, s),
                              !.up = IF s \in st.pres THEN @ \cup {s} ELSE @ \ {s}], st |-> st]
       ELSE [m |-> mm, st |-> st]
  ELSE IF st.rec[s] = "no"
  THEN [m |-> Drop(mm, s),
        st |-> IF "drop_no_withdraw" \in Defects THEN st
               ELSE [st EXCEPT !.pl[s] = @ \ OnSrv(mm, s)]]
  ELSE IF CapOf(st, s) = mm.cap[s] THEN [m |-> mm, st |-> st]
  ELSE Replace(mm, st, s)

RECURSIVE ReloadAll(_, _, _)
ReloadAll(mm, st, ss) ==
  IF ss = <<>> THEN [m |-> mm, st |-> st]
  ELSE LET r == Reload(mm, st, Head(ss)) IN ReloadAll(r.m, r.st, Tail(ss))

SeqOf(S) == SelectSeq(SrvSeq, LAMBDA s : s \in S)

Handler == phase = "idle" /\ m.alive /\ fresh' = FALSE /\ UNCHANGED <<pub, phase, err, n, nc>>

(* scheduled watch: Master.remove_app deletes the placement entry at once *)
DeliverScheduled ==
  /\ Handler /\ "scheduled" \in dirty
  /\ LET gone == m.apps \ store.sched IN
     /\ store' = [store EXCEPT !.pl = [s \in Srv |-> store.pl[s] \ {a \in gone : m.placed[a] = s}]]
     /\ m' = [m EXCEPT !.apps = store.sched,
                       !.placed = [a \in App |-> IF a \in gone THEN "" ELSE m.placed[a]]]
  /\ dirty' = dirty \ {"scheduled"} /\ UNCHANGED evq

(* presence watch: adjust_presence; servers that come up are reloaded *)
DeliverPresence ==
  /\ Handler /\ "presence" \in dirty
  /\ LET wentdown == {s \in m.up : s \notin store.pres}
         m1 == [m EXCEPT !.up = @ \ wentdown]
         cameup == {s \in m.srv : s \notin m.up /\ s \in store.pres}
         r == ReloadAll(m1, store, SeqOf(cameup)) IN
     /\ m' = [r.m EXCEPT !.up = @ \cup (cameup \cap r.m.srv)]
     /\ store' = r.st
  /\ dirty' = dirty \ {"presence"} /\ UNCHANGED evq

(* `servers` event naming s *)
DeliverServers(s) ==
  /\ Handler /\ s \in evq
  /\ LET r == Reload(m, store, s) IN m' = r.m /\ store' = r.st
  /\ evq' = evq \ {s} /\ UNCHANGED dirty

-----------------------------------------------------------------------------
(* a cycle on the master's view, notifications possibly pending *)
LegalP(mm, P) ==
  /\ \A a \in App : a \notin mm.apps => P[a] = ""
  /\ \A a \in mm.apps : P[a] \in {""} \cup mm.up \cup ({mm.placed[a]} \cap mm.srv)
  /\ \A s \in Srv : Cardinality({a \in App : P[a] = s}) <= (IF s \in mm.srv THEN mm.cap[s] ELSE 0)

RECURSIVE Concat(_)
Concat(ss) == IF ss = <<>> THEN <<>> ELSE Head(ss) \o Concat(Tail(ss))

ReschedWrites(old, P) ==
  Concat([j \in DOMAIN AppSeq |-> LET a == AppSeq[j] IN
            IF old.placed[a] # "" /\ old.placed[a] # P[a] THEN <<<<"del", old.placed[a], a>>>> ELSE <<>>])
  \o Concat([j \in DOMAIN AppSeq |-> LET a == AppSeq[j] IN
            IF P[a] # "" /\ old.placed[a] # P[a] THEN <<<<"put", P[a], a>>>> ELSE <<>>])

Cycle(P) ==
  /\ phase = "idle" /\ m.alive /\ LegalP(m, P)
  /\ nc < MaxCycles /\ nc' = nc + 1
  /\ pub' = ReschedWrites(m, P)
  /\ m' = [m EXCEPT !.placed = P]
  /\ phase' = "pub" /\ fresh' = FALSE
  /\ UNCHANGED <<store, dirty, evq, err, n>>

(* the put re-creates a missing placement node (kazoo makepath) *)
Write(st, w) == IF w[1] = "del" THEN [st EXCEPT !.pl[w[2]] = @ \ {w[3]}]
                ELSE [st EXCEPT !.pl[w[2]] = @ \cup {w[3]}]

PubStep ==
  /\ phase \in {"pub", "load", "init"} /\ pub # <<>>
  /\ store' = Write(store, Head(pub)) /\ pub' = Tail(pub)
  /\ UNCHANGED <<m, dirty, evq, phase, fresh, err, n, nc>>

(* Loader.check_placement_integrity: walks the placement nodes in listing     *)
(* order, repairs an instance found twice (keeps the copy the model has),     *)
(* then cross-checks model against store                                      *)
Integrity(st, mm) ==
  LET dup == {a \in App : Cardinality(ServersOf(st, a)) > 1}
      hopeless == \E a \in dup : a \notin mm.apps \/ mm.placed[a] \notin ServersOf(st, a)
      st1 == [st EXCEPT !.pl = [s \in Srv |->
                 {a \in st.pl[s] : ~(a \in dup /\ a \in mm.apps /\ mm.placed[a] # s)}]]
      First(a) == SrvSeq[CHOOSE k \in DOMAIN SrvSeq :
                     SrvSeq[k] \in ServersOf(st, a) /\ \A j \in 1..(k - 1) : SrvSeq[j] \notin ServersOf(st, a)]
      seen(a) == IF "integrity_first_seen" \in Defects /\ a \in dup THEN First(a)
                 ELSE IF ServersOf(st1, a) = {} THEN "" ELSE CHOOSE s \in ServersOf(st1, a) : TRUE
      wrong == \E a \in mm.apps : mm.placed[a] # "" /\ seen(a) # mm.placed[a]
  IN [st |-> st1, err |-> hopeless \/ wrong]

(* run_loop checks the placement integrity right after every publication.  A  *)
(* LIVE master that fails the check exits (utils.exit_on_unhandled) - a crash  *)
(* like any other, the repairs it made before the assertion stay.  A master    *)
(* that fails it at START-UP is what C10 excludes: err.                        *)
Finish ==
  /\ phase \in {"pub", "init"} /\ pub = <<>>
  /\ LET r == Integrity(store, m) IN
     /\ store' = r.st
     /\ IF r.err /\ phase = "pub"
        THEN m' = Dead /\ phase' = "down" /\ fresh' = FALSE /\ err' = err
        ELSE m' = m /\ phase' = "idle" /\ fresh' = TRUE /\ err' = (err \/ r.err)
  /\ UNCHANGED <<dirty, evq, pub, n, nc>>

Crash ==
  /\ m.alive
  /\ m' = Dead /\ pub' = <<>> /\ phase' = "down" /\ fresh' = FALSE
  /\ UNCHANGED <<store, dirty, evq, err, n, nc>>

(* a new master: load_model reads the store as it is (nothing is pending for  *)
(* it), restore_placements restores what fits, drops the rest                 *)
RECURSIVE Restore(_, _, _)
Restore(st, ss, acc) ==    \* acc = [placed, multi, writes]
  IF ss = <<>> THEN acc
  ELSE LET s == Head(ss)
           stale == {a \in st.pl[s] : a \notin st.sched}
           ok == {a \in st.pl[s] : a \in st.sched}
           placed1 == [a \in App |-> IF a \in ok /\ acc.placed[a] = "" THEN s ELSE acc.placed[a]]
           multi1 == [a \in App |-> IF a \in ok THEN acc.multi[a] \cup {s} ELSE acc.multi[a]]
           w == Concat([j \in DOMAIN AppSeq |->
                          IF AppSeq[j] \in stale THEN <<<<"del", s, AppSeq[j]>>>> ELSE <<>>])
       IN Restore(st, Tail(ss), [placed |-> placed1, multi |-> multi1, writes |-> acc.writes \o w])

LoadModel(st) ==
  LET srv == {s \in Srv : st.rec[s] # "no"}
      acc == Restore(st, SeqOf(srv), [placed |-> NoPl, multi |-> [a \in App |-> {}], writes |-> <<>>])
      dup == {a \in App : Cardinality(acc.multi[a]) > 1}
      dupw == Concat([j \in DOMAIN AppSeq |->
                        IF AppSeq[j] \in dup
                        THEN Concat([k \in DOMAIN SrvSeq |->
                                       IF SrvSeq[k] \in acc.multi[AppSeq[j]]
                                       THEN <<<<"del", SrvSeq[k], AppSeq[j]>>>> ELSE <<>>])
                        ELSE <<>>])
  IN [m |-> [alive |-> TRUE, srv |-> srv, cap |-> [s \in Srv |-> CapOf(st, s)],
             up |-> srv \cap st.pres, apps |-> st.sched,
             placed |-> [a \in App |-> IF a \in dup THEN "" ELSE acc.placed[a]]],
      writes |-> acc.writes \o dupw]

Restart ==
  /\ phase = "down"
  /\ nc < MaxCycles /\ nc' = nc + 1
  /\ LET r == LoadModel(store) IN m' = r.m /\ pub' = r.writes
  /\ dirty' = {} /\ evq' = {}
  /\ phase' = "load" /\ fresh' = FALSE
  /\ UNCHANGED <<store, err, n>>

(* init_schedule against the store as it is when the publication starts *)
InitWrites(st, mm, P) ==
  LET cur(s) == st.pl[s]
      cor(s) == {a \in App : P[a] = s}
      dels(s) == Concat([j \in DOMAIN AppSeq |->
                   IF AppSeq[j] \in cur(s) \ cor(s) THEN <<<<"del", s, AppSeq[j]>>>> ELSE <<>>])
      crt(s) == Concat([j \in DOMAIN AppSeq |->
                   IF AppSeq[j] \in cor(s) \ cur(s) THEN <<<<"put", s, AppSeq[j]>>>> ELSE <<>>])
      known == SeqOf(mm.srv)
      ghosts == IF "init_known_only" \in Defects THEN <<>> ELSE SeqOf(Srv \ mm.srv)
  IN Concat([k \in DOMAIN known |-> dels(known[k])])
     \o Concat([k \in DOMAIN ghosts |-> dels(ghosts[k])])
     \o Concat([k \in DOMAIN known |-> crt(known[k])])

InitSchedule(P) ==
  /\ phase = "load" /\ pub = <<>> /\ LegalP(m, P)
  /\ pub' = InitWrites(store, m, P)
  /\ m' = [m EXCEPT !.placed = P]
  /\ phase' = "init"
  /\ UNCHANGED <<store, dirty, evq, fresh, err, n, nc>>

Next ==
  \/ \E a \in App : Schedule(a)
  \/ \E a \in App : Unschedule(a)
  \/ \E s \in Srv : NodeDown(s)
  \/ \E s \in Srv : NodeUp(s)
  \/ \E s \in Srv : DeleteServer(s)
  \/ \E s \in Srv : CreateServer(s)
  \/ DeliverScheduled \/ DeliverPresence
  \/ \E s \in Srv : DeliverServers(s)
  \/ \E P \in [App -> Srv \cup {""}] : Cycle(P)
  \/ PubStep \/ Finish \/ Crash \/ Restart
  \/ \E P \in [App -> Srv \cup {""}] : InitSchedule(P)

Spec == Init /\ [][Next]_vars

-----------------------------------------------------------------------------
(* C10 under watch latency: in EVERY state no instance has two entries ...   *)
InvNoDup == \A a \in App : Cardinality(ServersOf(store, a)) <= 1
(* ... and a NEW master never fails its own integrity check                  *)
InvNoAssert == ~err
(* C09 under watch latency: once everything is delivered and a publication   *)
(* has completed, store and model agree exactly                              *)
Quiescent == dirty = {} /\ evq = {} /\ fresh /\ phase = "idle" /\ m.alive
InvSettled == Quiescent =>
  \A s \in Srv, a \in App : (a \in store.pl[s]) <=> (m.placed[a] = s)
(* the master's view of scheduled instances / servers is the store's once    *)
(* delivered (the handlers are complete)                                     *)
InvView == (dirty = {} /\ evq = {} /\ m.alive /\ phase = "idle") =>
  /\ m.apps = store.sched
  /\ m.srv = {s \in Srv : store.rec[s] # "no"}
=============================================================================
