--------------------------- MODULE PendingStart ---------------------------
(* Beyond the listed properties (DESIGN.md section 5, "also covers"):        *)
(* Master._check_pending_start - an instance that is placed on a server that *)
(* is not down and does not register as running within the start interval    *)
(* gets its server frozen and is itself marked for unscheduling.             *)
(* CheckPending is the successor function of one call (master.py 631-674),   *)
(* used by the model below and by MasterTrace.tla on recorded Integrity      *)
(* lines.                                                                    *)
EXTENDS Naturals, Integers, FiniteSets, TLC

StartInterval == 300

(* ps: app -> [server, since]; placed: app -> server ("" = none);            *)
(* sstate: server -> "up"|"down"|"frozen"; running: set of apps              *)
Watch(ps, placed, sstate, running, now) ==
  LET apps == DOMAIN placed
      ps1 == [a \in DOMAIN ps \cap apps |-> ps[a]]
      due(a) == /\ a \notin running /\ placed[a] # ""
                /\ placed[a] \in DOMAIN sstate /\ sstate[placed[a]] # "down"
      keep == {a \in apps : due(a)}
  IN [a \in keep |-> IF a \in DOMAIN ps1 /\ ps1[a].server = placed[a] THEN ps1[a]
                     ELSE [server |-> placed[a], since |-> now]]

Late(ps, now) == {a \in DOMAIN ps : now > ps[a].since + StartInterval}

(* result of one _check_pending_start: [ps, frozen (servers), marked (apps)] *)
CheckPending(ps, placed, sstate, running, now) ==
  LET ps2 == Watch(ps, placed, sstate, running, now)
      late == Late(ps2, now)
      frozen == {ps2[a].server : a \in late} \cap DOMAIN sstate
      marked == {a \in late : ps2[a].server \in frozen /\ placed[a] = ps2[a].server}
  IN [ps |-> ps2, frozen |-> frozen, marked |-> marked]

-----------------------------------------------------------------------------
CONSTANTS Apps, Servers, MaxClock

VARIABLES ps, placed, sstate, running, now, unsched,
          seen     \* observer: since when has each app been continuously "due" on its server

vars == <<ps, placed, sstate, running, now, unsched, seen>>

Init == /\ ps = [a \in {} |-> 0] /\ placed = [a \in Apps |-> ""]
        /\ sstate = [s \in Servers |-> "up"] /\ running = {} /\ now = 0
        /\ unsched = {} /\ seen = [a \in {} |-> 0]

Place(a, s) == /\ placed[a] # s /\ sstate[s] = "up"
               /\ placed' = [placed EXCEPT ![a] = s]
               /\ running' = running \ {a} /\ unsched' = unsched \ {a}
               /\ UNCHANGED <<ps, sstate, now, seen>>
Unplace(a) == /\ placed[a] # "" /\ placed' = [placed EXCEPT ![a] = ""]
              /\ running' = running \ {a} /\ unsched' = unsched \ {a}
              /\ UNCHANGED <<ps, sstate, now, seen>>
Run(a) == /\ placed[a] # "" /\ a \notin running /\ running' = running \cup {a}
          /\ UNCHANGED <<ps, placed, sstate, now, unsched, seen>>
Stop(a) == /\ a \in running /\ running' = running \ {a}
           /\ UNCHANGED <<ps, placed, sstate, now, unsched, seen>>
SetState(s, v) == /\ sstate[s] # v /\ sstate' = [sstate EXCEPT ![s] = v]
                  /\ UNCHANGED <<ps, placed, running, now, unsched, seen>>
Tick(d) == /\ now + d <= MaxClock /\ now' = now + d
           /\ UNCHANGED <<ps, placed, sstate, running, unsched, seen>>

Check ==
  LET r == CheckPending(ps, placed, sstate, running, now) IN
  /\ ps' = r.ps
  /\ sstate' = [s \in Servers |-> IF s \in r.frozen THEN "frozen" ELSE sstate[s]]
  /\ unsched' = unsched \cup r.marked
  /\ seen' = [a \in DOMAIN r.ps |-> IF a \in DOMAIN seen /\ ps[a].server = r.ps[a].server
                                    THEN seen[a] ELSE now]
  /\ UNCHANGED <<placed, running, now>>

Next == \/ \E a \in Apps, s \in Servers : Place(a, s)
        \/ \E a \in Apps : Unplace(a)
        \/ \E a \in Apps : Run(a)
        \/ \E a \in Apps : Stop(a)
        \/ \E s \in Servers, v \in {"up", "down", "frozen"} : SetState(s, v)
        \/ \E d \in {100, 200, 301} : Tick(d)
        \/ Check

Spec == Init /\ [][Next]_vars

(* the master freezes a server only for an instance it has SEEN (at every     *)
(* check since) not running on that server for longer than the start interval *)
FreezeJustified ==
  [][ \A s \in Servers :
        (sstate[s] # "frozen" /\ sstate'[s] = "frozen" /\ now' = now /\ ps' # ps) =>
           \E a \in DOMAIN seen : /\ placed[a] = s /\ a \notin running
                                   /\ now > seen[a] + StartInterval ]_vars
InvMarked == \A a \in unsched : placed[a] # ""
InvWatched == \A a \in DOMAIN ps : ps[a].since <= now
=============================================================================
