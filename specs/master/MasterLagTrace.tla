-------------------------- MODULE MasterLagTrace ---------------------------
(* Recorded executions of the REAL Master (scheduler/master.py + loader.py +  *)
(* ZkBackend on the in-memory ZooKeeper) under watch latency, judged against   *)
(* MasterLag.tla: every recorded step must be the value of the model's         *)
(* successor function (MasterLagOps) for that event.  What the harness cannot  *)
(* choose or observe is quantified: the placement P a cycle picks (taken from   *)
(* the small set of legal ones), and the storage write at which an injected     *)
(* crash falls (the real publication issues more writes than the model: task    *)
(* and state records).  All clauses are conformance class : ext.lag.step / ext.lag.init.          *)
(*                                                                             *)
(* Line: [ev, args, obs] + flags crashed / noop / exc.  obs is the abstract     *)
(* state of store and master: [pl, rec, pres, sched, alive, srv, up, apps,      *)
(* placed, cap].                                                               *)
EXTENDS MasterLagOps, TraceLib, Json, IOUtils, TLCExt

Traces == JsonDeserialize(IOEnv.TRACE_FILE).traces
SrvSeqC == <<"s1", "s2">>
AppSeqC == <<"a1", "a2">>
NoDefectsC == {}

VARIABLES t, i, S, lost
vars == <<t, i, S, lost>>

F(name, ok) == IF ok THEN {} ELSE {name}
E(name, yes) == IF yes THEN {name} ELSE {}

(* observation of a model state, in the shape the harness logs *)
ObsOf(X) ==
  [pl |-> X.store.pl, rec |-> X.store.rec, pres |-> X.store.pres, sched |-> X.store.sched,
   alive |-> X.m.alive,
   srv |-> IF X.m.alive THEN X.m.srv ELSE {},
   up |-> IF X.m.alive THEN X.m.up ELSE {},
   apps |-> IF X.m.alive THEN X.m.apps ELSE {},
   placed |-> IF X.m.alive THEN X.m.placed ELSE NoPl,
   cap |-> IF X.m.alive THEN [s \in Srv |-> IF s \in X.m.srv THEN X.m.cap[s] ELSE 0]
           ELSE [s \in Srv |-> 0]]

Canon(o) ==
  [pl |-> [s \in Srv |-> SetOf(o.pl[s])], rec |-> [s \in Srv |-> o.rec[s]],
   pres |-> SetOf(o.pres) \cap Srv, sched |-> SetOf(o.sched) \cap App,
   alive |-> o.alive, srv |-> SetOf(o.srv) \cap Srv, up |-> SetOf(o.up) \cap Srv,
   apps |-> SetOf(o.apps) \cap App,
   placed |-> [a \in App |-> IF a \in DOMAIN o.placed THEN o.placed[a] ELSE ""],
   cap |-> [s \in Srv |-> IF s \in DOMAIN o.cap /\ o.cap[s] > 0 THEN Cap ELSE 0]]

AllP == [App -> Srv \cup {""}]

(* the candidate successors of X for one recorded line *)
Handle(X, key) ==
  IF ~CanHandle(X) THEN X
  ELSE IF key = "scheduled" THEN (IF "scheduled" \in X.dirty THEN DeliverScheduledDo(X) ELSE X)
  ELSE IF key = "presence" THEN (IF "presence" \in X.dirty THEN DeliverPresenceDo(X) ELSE X)
  ELSE DeliverEventsDo(DeliverAllAppsDo(X, SelectSeq(AppSeq, LAMBDA a : a \in X.aq)), SeqOf(X.evq))

RECURSIVE HandleAll(_, _)
HandleAll(X, keys) == IF keys = <<>> THEN X ELSE HandleAll(Handle(X, Head(keys)), Tail(keys))

CycleOutcomes(X) ==
  IF ~CanHandle(X) THEN {X}
  ELSE {FinishDo(PubAll(CycleDo(X, P))) : P \in {Q \in AllP : LegalP(X.m, Q)}}

CycleCuts(X) ==
  IF ~CanHandle(X) THEN {X}
  ELSE UNION {{CrashDo(PubN(CycleDo(X, P), j)) : j \in 0..Len(ReschedWrites(X.m, P))}
              : P \in {Q \in AllP : LegalP(X.m, Q)}}

Down(X) == IF X.m.alive THEN CrashDo(X) ELSE X

StartOutcomes(X) ==
  LET X1 == PubAll(RestartDo(Down(X))) IN
  {FinishDo(PubAll(InitScheduleDo(X1, P))) : P \in {Q \in AllP : LegalP(X1.m, Q)}}

StartCuts(X) ==
  LET X0 == RestartDo(Down(X))
      X1 == PubAll(X0) IN
  {CrashDo(PubN(X0, j)) : j \in 0..Len(X0.pub)}
  \cup UNION {{CrashDo(PubN(InitScheduleDo(X1, P), j)) : j \in 0..Len(InitWrites(X1.store, X1.m, P))}
              : P \in {Q \in AllP : LegalP(X1.m, Q)}}

EnvName(ev) == CASE ev = "CreateApp" -> "Schedule" [] ev = "DeleteApp" -> "Unschedule"
                 [] ev = "SetPrio" -> "AppsEvent" [] OTHER -> ev

Successors(X, line) ==
  LET ev == line.ev IN
  IF "noop" \in DOMAIN line /\ line.noop THEN {X}
  ELSE IF ev \in {"CreateApp", "DeleteApp", "NodeDown", "NodeUp", "DeleteServer", "CreateServer", "SetPrio"}
  THEN IF EnvEnabled(X, EnvName(ev), <<line.args[1]>>)
       THEN {HandleAll(EnvDo(X, EnvName(ev), <<line.args[1]>>), line.order)}   \* (order = <<>> while deferred)
       ELSE {}
  ELSE IF ev = "DeliverPath" THEN {Handle(X, line.args[1])}
  ELSE IF ev = "Deliver" THEN {HandleAll(X, line.order)}
  ELSE IF ev \in {"Defer", "Tick"} THEN {X}
  ELSE IF ev \in {"StaleCycle", "Cycle"} THEN CycleOutcomes(X)
  ELSE IF ev \in {"StaleCrashCycle", "CrashCycle"}
  THEN IF line.crashed THEN CycleCuts(X) ELSE CycleOutcomes(X)
  ELSE IF ev = "Kill" THEN {Down(X)}
  ELSE IF ev = "Restart" THEN StartOutcomes(X)
  ELSE IF ev = "CrashRestart" THEN IF line.crashed THEN StartCuts(X) ELSE StartOutcomes(X)
  ELSE {}

Matching(X, line) == {Y \in Successors(X, line) : ObsOf(Y) = Canon(line.obs)}

Init == t \in DOMAIN Traces /\ i = 1 /\ S = S0 /\ lost = FALSE

Next ==
  /\ i < Len(Traces[t].lines)
  /\ i' = i + 1 /\ t' = t
  /\ LET line == Traces[t].lines[i + 1]
         skip == lost \/ "exc" \in DOMAIN line
         match == IF skip THEN {} ELSE Matching(S, line) IN
     /\ lost' = (skip \/ match = {})
     /\ S' = IF match = {} THEN S ELSE CHOOSE Y \in match : TRUE
     /\ PrintT(ToJson([tid |-> Traces[t].tid, i |-> i,
                       fail |-> IF skip THEN {} ELSE
                                F("ext.lag.step", match # {})
                                \cup F("ext.lag.init", i > 1 \/ ObsOf(S0) = Canon(Traces[t].lines[1].obs)),
                       ex |-> E("lost", skip) \cup E("lag", ~skip /\ S.dirty \cup S.evq \cup S.aq # {})
                              \cup E("cut", ~skip /\ "crashed" \in DOMAIN line /\ line.crashed)]))

Spec == Init /\ [][Next]_vars
=============================================================================
