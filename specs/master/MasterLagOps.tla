---------------------------- MODULE MasterLagOps ----------------------------
(* The steps of MasterLag.tla as pure successor functions on a state record  *)
(*                                                                           *)
(*   S = [store, m, dirty, evq, aq, pub, phase, err]                         *)
(*                                                                           *)
(* shared by the model (MasterLag.tla: guards + S' = Do(S)) and by the trace  *)
(* specification (MasterLagTrace.tla: the recorded step of the real Master    *)
(* must be the function's value).  See MasterLag.tla for what is modelled.    *)
EXTENDS Naturals, Sequences, FiniteSets, TLC

CONSTANTS Srv, App, SrvSeq, AppSeq, Cap, Defects

Dead == [alive |-> FALSE]
NoPl == [a \in App |-> ""]

S0 == [store |-> [pl |-> [s \in Srv |-> {}], rec |-> [s \in Srv |-> "data"], pres |-> Srv,
                  sched |-> {}],
       m |-> [alive |-> TRUE, srv |-> Srv, cap |-> [s \in Srv |-> Cap], up |-> Srv, apps |-> {},
              placed |-> NoPl],
       dirty |-> {}, evq |-> {}, aq |-> {}, pub |-> <<>>, phase |-> "idle", err |-> FALSE]

ServersOf(st, a) == {s \in Srv : a \in st.pl[s]}
OnSrv(mm, s) == {a \in App : mm.placed[a] = s}
SeqOf(S) == SelectSeq(SrvSeq, LAMBDA s : s \in S)
CapOf(st, s) == IF st.rec[s] = "data" THEN Cap ELSE 0

RECURSIVE Concat(_)
Concat(ss) == IF ss = <<>> THEN <<>> ELSE Head(ss) \o Concat(Tail(ss))

-----------------------------------------------------------------------------
(* environment: the store only, plus the notification it leaves *)
EnvEnabled(S, ev, args) ==
  CASE ev = "Schedule" -> args[1] \notin S.store.sched
    [] ev = "Unschedule" -> args[1] \in S.store.sched
    [] ev = "NodeDown" -> args[1] \in S.store.pres
    [] ev = "NodeUp" -> args[1] \notin S.store.pres /\ S.store.rec[args[1]] # "no"
    [] ev = "DeleteServer" -> S.store.rec[args[1]] # "no"
    [] ev = "CreateServer" -> S.store.rec[args[1]] = "no"
    [] ev = "AppsEvent" -> args[1] \in S.store.sched
    [] OTHER -> FALSE

EnvDo(S, ev, args) ==
  CASE ev = "Schedule" -> [S EXCEPT !.store.sched = @ \cup {args[1]}, !.dirty = @ \cup {"scheduled"}]
    [] ev = "Unschedule" -> [S EXCEPT !.store.sched = @ \ {args[1]}, !.dirty = @ \cup {"scheduled"}]
    [] ev = "NodeDown" -> [S EXCEPT !.store.pres = @ \ {args[1]}, !.dirty = @ \cup {"presence"}]
       (* node registration: capacity record + presence node *)
    [] ev = "NodeUp" -> [S EXCEPT !.store.pres = @ \cup {args[1]}, !.store.rec[args[1]] = "data",
                                  !.dirty = @ \cup {"presence"}]
       (* masterapi.delete_server: server record and placement node (recursively) *)
    [] ev = "DeleteServer" -> [S EXCEPT !.store.rec[args[1]] = "no", !.store.pl[args[1]] = {},
                                        !.evq = @ \cup {args[1]}]
       (* masterapi.create_server: a record without capacity *)
    [] ev = "CreateServer" -> [S EXCEPT !.store.rec[args[1]] = "bare", !.evq = @ \cup {args[1]}]
       (* masterapi.update_app_priorities: the manifest is rewritten, an `apps` *)
       (* event names the instance (it may be deleted before the event is read) *)
    [] ev = "AppsEvent" -> [S EXCEPT !.aq = @ \cup {args[1]}]
    [] OTHER -> S

-----------------------------------------------------------------------------
(* Loader.reload_server(s): [m, st] *)
Drop(mm, s) == [mm EXCEPT !.srv = @ \ {s}, !.up = @ \ {s},
                          !.placed = [a \in App |-> IF mm.placed[a] = s THEN "" ELSE mm.placed[a]]]

RECURSIVE TakeFit(_, _, _)
TakeFit(seq, S, k) ==    \* the first k elements of seq that are in S
  IF seq = <<>> \/ k = 0 THEN {}
  ELSE IF Head(seq) \in S THEN {Head(seq)} \cup TakeFit(Tail(seq), S, k - 1)
  ELSE TakeFit(Tail(seq), S, k)

(* "server modified, replacing": remove, load as new, restore_placement from   *)
(* what is stored under it (only when the model had instances on it)           *)
Replace(mm, st, s) ==
  LET had == OnSrv(mm, s) # {}
      base == [mm EXCEPT !.cap[s] = CapOf(st, s),
                         !.up = IF s \in st.pres THEN @ \cup {s} ELSE @ \ {s},
                         !.placed = [a \in App |-> IF mm.placed[a] = s THEN "" ELSE mm.placed[a]]]
      keepable == {a \in st.pl[s] \cap mm.apps : base.placed[a] = ""}
      restored == TakeFit(AppSeq, keepable, CapOf(st, s))
  IN IF ~had THEN [m |-> base, st |-> st]
     ELSE [m |-> [base EXCEPT !.placed = [a \in App |-> IF a \in restored THEN s ELSE base.placed[a]]],
           st |-> [st EXCEPT !.pl[s] = restored]]

Reload(mm, st, s) ==
  IF s \notin mm.srv
  THEN IF st.rec[s] # "no"
       THEN [m |-> [mm EXCEPT !.srv = @ \cup {s}, !.cap[s] = CapOf(st, s),
                              !.up = IF s \in st.pres THEN @ \cup {s} ELSE @ \ {s}], st |-> st]
       ELSE [m |-> mm, st |-> st]
  ELSE IF st.rec[s] = "no"
  THEN [m |-> Drop(mm, s),
        st |-> IF "drop_no_withdraw" \in Defects THEN st
               ELSE [st EXCEPT !.pl[s] = @ \ OnSrv(mm, s)]]
  ELSE IF CapOf(st, s) = mm.cap[s] THEN [m |-> mm, st |-> st]
  ELSE Replace(mm, st, s)

RECURSIVE ReloadAll(_, _, _)
ReloadAll(mm, st, ss) ==
  IF ss = <<>> THEN [m |-> mm, st |-> st]
  ELSE LET r == Reload(mm, st, Head(ss)) IN ReloadAll(r.m, r.st, Tail(ss))

CanHandle(S) == S.phase = "idle" /\ S.m.alive

(* scheduled watch: Master.remove_app deletes the placement entry at once *)
DeliverScheduledDo(S) ==
  LET gone == S.m.apps \ S.store.sched IN
  [S EXCEPT !.store.pl = [s \in Srv |-> S.store.pl[s] \ {a \in gone : S.m.placed[a] = s}],
            !.m.apps = S.store.sched,
            !.m.placed = [a \in App |-> IF a \in gone THEN "" ELSE S.m.placed[a]],
            !.dirty = @ \ {"scheduled"}]

(* presence watch: adjust_presence; servers that come up are reloaded *)
DeliverPresenceDo(S) ==
  LET wentdown == {s \in S.m.up : s \notin S.store.pres}
      m1 == [S.m EXCEPT !.up = @ \ wentdown]
      cameup == {s \in S.m.srv : s \notin S.m.up /\ s \in S.store.pres}
      r == ReloadAll(m1, S.store, SeqOf(cameup)) IN
  [S EXCEPT !.m = [r.m EXCEPT !.up = @ \cup (cameup \cap r.m.srv)], !.store = r.st,
            !.dirty = @ \ {"presence"}]

(* `servers` event naming s *)
DeliverServersDo(S, s) ==
  LET r == Reload(S.m, S.store, s) IN
  [S EXCEPT !.m = r.m, !.store = r.st, !.evq = @ \ {s}]

(* `apps` event naming a: load_app; a manifest that is gone meanwhile means    *)
(* Master.remove_app - which withdraws the placement entry as well             *)
DeliverAppsDo(S, a) ==
  IF a \in S.store.sched \/ a \notin S.m.apps
  THEN [S EXCEPT !.aq = @ \ {a},
                 !.m.apps = IF a \in S.store.sched THEN @ \cup {a} ELSE @]
  ELSE [S EXCEPT !.aq = @ \ {a},
                 !.store.pl = IF "apps_event_no_unpublish" \in Defects THEN @
                              ELSE [s \in Srv |-> S.store.pl[s] \ (IF S.m.placed[a] = s THEN {a} ELSE {})],
                 !.m.apps = @ \ {a}, !.m.placed[a] = ""]

RECURSIVE DeliverAllAppsDo(_, _)
DeliverAllAppsDo(S, as) ==
  IF as = <<>> THEN S ELSE DeliverAllAppsDo(DeliverAppsDo(S, Head(as)), Tail(as))

RECURSIVE DeliverEventsDo(_, _)
DeliverEventsDo(S, ss) ==
  IF ss = <<>> THEN S ELSE DeliverEventsDo(DeliverServersDo(S, Head(ss)), Tail(ss))

-----------------------------------------------------------------------------
(* a cycle on the master's view, notifications possibly pending *)
LegalP(mm, P) ==
  /\ \A a \in App : a \notin mm.apps => P[a] = ""
  /\ \A a \in mm.apps : P[a] \in {""} \cup mm.up \cup ({mm.placed[a]} \cap mm.srv)
  /\ \A s \in Srv : Cardinality({a \in App : P[a] = s}) <= (IF s \in mm.srv THEN mm.cap[s] ELSE 0)

ReschedWrites(old, P) ==
  Concat([j \in DOMAIN AppSeq |-> LET a == AppSeq[j] IN
            IF old.placed[a] # "" /\ old.placed[a] # P[a] THEN <<<<"del", old.placed[a], a>>>> ELSE <<>>])
  \o Concat([j \in DOMAIN AppSeq |-> LET a == AppSeq[j] IN
            IF P[a] # "" /\ old.placed[a] # P[a] THEN <<<<"put", P[a], a>>>> ELSE <<>>])

CycleDo(S, P) == [S EXCEPT !.pub = ReschedWrites(S.m, P), !.m.placed = P, !.phase = "pub"]

(* the put re-creates a missing placement node (kazoo makepath) *)
Write(st, w) == IF w[1] = "del" THEN [st EXCEPT !.pl[w[2]] = @ \ {w[3]}]
                ELSE [st EXCEPT !.pl[w[2]] = @ \cup {w[3]}]

PubStepDo(S) == [S EXCEPT !.store = Write(S.store, Head(S.pub)), !.pub = Tail(S.pub)]

RECURSIVE PubN(_, _)
PubN(S, k) == IF k = 0 \/ S.pub = <<>> THEN S ELSE PubN(PubStepDo(S), k - 1)
PubAll(S) == PubN(S, Len(S.pub))

(* Loader.check_placement_integrity: walks the placement nodes in listing     *)
(* order, repairs an instance found twice (keeps the copy the model has),     *)
(* then cross-checks model against store                                      *)
Integrity(st, mm) ==
  LET dup == {a \in App : Cardinality(ServersOf(st, a)) > 1}
      hopeless == \E a \in dup : a \notin mm.apps \/ mm.placed[a] \notin ServersOf(st, a)
      st1 == [st EXCEPT !.pl = [s \in Srv |->
                 {a \in st.pl[s] : ~(a \in dup /\ a \in mm.apps /\ mm.placed[a] # s)}]]
      First(a) == SrvSeq[CHOOSE k \in DOMAIN SrvSeq :
                     SrvSeq[k] \in ServersOf(st, a) /\ \A j \in 1..(k - 1) : SrvSeq[j] \notin ServersOf(st, a)]
      seen(a) == IF "integrity_first_seen" \in Defects /\ a \in dup THEN First(a)
                 ELSE IF ServersOf(st1, a) = {} THEN "" ELSE CHOOSE s \in ServersOf(st1, a) : TRUE
      wrong == \E a \in mm.apps : mm.placed[a] # "" /\ seen(a) # mm.placed[a]
  IN [st |-> st1, err |-> hopeless \/ wrong]

(* run_loop checks the placement integrity right after every publication.  A  *)
(* LIVE master that fails the check exits (utils.exit_on_unhandled) - a crash  *)
(* like any other, the repairs it made before the assertion stay.  A master    *)
(* that fails it at START-UP is what C10 excludes: err.                        *)
FinishDo(S) ==
  LET r == Integrity(S.store, S.m) IN
  IF r.err /\ S.phase = "pub"
  THEN [S EXCEPT !.store = r.st, !.m = Dead, !.phase = "down"]
  ELSE [S EXCEPT !.store = r.st, !.phase = "idle", !.err = (S.err \/ r.err)]

CrashDo(S) == [S EXCEPT !.m = Dead, !.pub = <<>>, !.phase = "down"]

(* a new master: load_model reads the store as it is (nothing is pending for  *)
(* it), restore_placements restores what fits, drops the rest                 *)
RECURSIVE Restore(_, _, _)
Restore(st, ss, acc) ==    \* acc = [placed, multi, writes]
  IF ss = <<>> THEN acc
  ELSE LET s == Head(ss)
           stale == {a \in st.pl[s] : a \notin st.sched}
           ok == {a \in st.pl[s] : a \in st.sched}
           fits == TakeFit(AppSeq, ok, CapOf(st, s))
           placed1 == [a \in App |-> IF a \in fits /\ acc.placed[a] = "" THEN s ELSE acc.placed[a]]
           multi1 == [a \in App |-> IF a \in fits THEN acc.multi[a] \cup {s} ELSE acc.multi[a]]
           w == Concat([j \in DOMAIN AppSeq |->
                          IF AppSeq[j] \in stale \cup (ok \ fits) THEN <<<<"del", s, AppSeq[j]>>>> ELSE <<>>])
       IN Restore(st, Tail(ss), [placed |-> placed1, multi |-> multi1, writes |-> acc.writes \o w])

LoadModel(st) ==
  LET srv == {s \in Srv : st.rec[s] # "no"}
      acc == Restore(st, SeqOf(srv), [placed |-> NoPl, multi |-> [a \in App |-> {}], writes |-> <<>>])
      dup == {a \in App : Cardinality(acc.multi[a]) > 1}
      dupw == Concat([j \in DOMAIN AppSeq |->
                        IF AppSeq[j] \in dup
                        THEN Concat([k \in DOMAIN SrvSeq |->
                                       IF SrvSeq[k] \in acc.multi[AppSeq[j]]
                                       THEN <<<<"del", SrvSeq[k], AppSeq[j]>>>> ELSE <<>>])
                        ELSE <<>>])
  IN [m |-> [alive |-> TRUE, srv |-> srv, cap |-> [s \in Srv |-> CapOf(st, s)],
             up |-> srv \cap st.pres, apps |-> st.sched,
             placed |-> [a \in App |-> IF a \in dup THEN "" ELSE acc.placed[a]]],
      writes |-> acc.writes \o dupw]

RestartDo(S) ==
  LET r == LoadModel(S.store) IN
  [S EXCEPT !.m = r.m, !.pub = r.writes, !.dirty = {}, !.evq = {}, !.aq = {}, !.phase = "load"]

(* init_schedule against the store as it is when the publication starts *)
InitWrites(st, mm, P) ==
  LET cur(s) == st.pl[s]
      cor(s) == {a \in App : P[a] = s}
      dels(s) == Concat([j \in DOMAIN AppSeq |->
                   IF AppSeq[j] \in cur(s) \ cor(s) THEN <<<<"del", s, AppSeq[j]>>>> ELSE <<>>])
      crt(s) == Concat([j \in DOMAIN AppSeq |->
                   IF AppSeq[j] \in cor(s) \ cur(s) THEN <<<<"put", s, AppSeq[j]>>>> ELSE <<>>])
      known == SeqOf(mm.srv)
      ghosts == IF "init_known_only" \in Defects THEN <<>> ELSE SeqOf(Srv \ mm.srv)
  IN Concat([k \in DOMAIN known |-> dels(known[k])])
     \o Concat([k \in DOMAIN ghosts |-> dels(ghosts[k])])
     \o Concat([k \in DOMAIN known |-> crt(known[k])])

InitScheduleDo(S, P) ==
  [S EXCEPT !.pub = InitWrites(S.store, S.m, P), !.m.placed = P, !.phase = "init"]
=============================================================================
