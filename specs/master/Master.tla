------------------------------- MODULE Master -------------------------------
(* Publication of the scheduler's placement into ZooKeeper by the master     *)
(* (master.py reschedule / init_schedule / remove_app, loader.py             *)
(* restore_placement(s) / check_placement_integrity), with a crash possible  *)
(* between any two storage writes and a restart on whatever is stored.       *)
(*                                                                           *)
(* The scheduler inside is ABSTRACT: a cycle picks any placement that is     *)
(* legal for the in-memory model (an over-approximation of Sched.tla) -      *)
(* C09-C11 are about publication, not about which placement is chosen.       *)
(* Every storage write is one PubStep, so TLC visits every cut.              *)
(*                                                                           *)
(* Defects (DESIGN.md section 7) the model can reproduce:                    *)
(*   "init_not_two_pass"  init_schedule creates on one server before         *)
(*                        deleting on the next (C10)                         *)
(*   "init_names_only"    init_schedule does not rewrite differing data,     *)
(*                        restore does not publish re-evaluated expiry (C09) *)
EXTENDS MasterCore

CONSTANTS Srv, App, AppSeq, SrvSeq, Cap, MaxClock, MaxEvents, MaxCycles, Defects

VARIABLES store,   \* [pl: [Srv -> [App -> node | None]], pres: [Srv -> Nat], sched: SUBSET App]
          m,       \* in-memory model of the running master, or [alive |-> FALSE]
          pub,     \* storage writes still to be issued by the current operation
          phase,   \* "idle" | "pub" (reschedule) | "load" | "init" | "down"
          zt,      \* logical ZooKeeper time (ctime source)
          clock, fresh, pre, err, n, nc

vars == <<store, m, pub, phase, zt, clock, fresh, pre, err, n, nc>>

None == [id |-> -2, exp |-> -2, ct |-> -2]
Dead == [alive |-> FALSE]

StoreView ==
  [placement |-> [s \in Srv |->
      [apps |-> [a \in {x \in App : store.pl[s][x] # None} |->
                   [identity |-> store.pl[s][a].id, expires |-> store.pl[s][a].exp,
                    ctime |-> store.pl[s][a].ct]]]],
   presence |-> [s \in {x \in Srv : store.pres[x] # 0} |-> store.pres[s]],
   scheduled |-> store.sched]

ModelView(mm) ==
  [alive |-> TRUE,
   servers |-> [s \in Srv |-> [cap |-> <<Cap>>, label |-> "p", traits |-> {}]],
   apps |-> [a \in mm.apps |-> [server |-> mm.placed[a], identity |-> mm.id[a],
                                expiry |-> mm.exp[a], demand |-> <<1>>, label |-> "p",
                                traits |-> {}]]]

Init ==
  /\ store = [pl |-> [s \in Srv |-> [a \in App |-> None]], pres |-> [s \in Srv |-> 1],
              sched |-> {}]
  /\ m = [alive |-> TRUE, apps |-> {}, up |-> Srv, placed |-> [a \in App |-> ""],
          id |-> [a \in App |-> -1], exp |-> [a \in App |-> -1]]
  /\ pub = <<>> /\ phase = "idle" /\ zt = 1 /\ clock = 1
  /\ fresh = FALSE /\ pre = store /\ err = FALSE /\ n = 0 /\ nc = 0

-----------------------------------------------------------------------------
Write(st, w) ==   \* w = <<"del", s, a>> | <<"put", s, a, id, exp>>
  IF w[1] = "del" THEN [st EXCEPT !.pl[w[2]][w[3]] = None]
  ELSE LET old == st.pl[w[2]][w[3]] IN
       [st EXCEPT !.pl[w[2]][w[3]] =
          [id |-> w[4], exp |-> w[5], ct |-> IF old = None THEN zt ELSE old.ct]]

CountOn(placed, s) == Cardinality({a \in App : placed[a] = s})

(* placements a cycle may produce from model mm at time `clock`: P is the     *)
(* new placement, R the kept instances whose lease is renewed.  Identities    *)
(* of kept instances stay, the others get the lowest free ones (which one is  *)
(* irrelevant for publication).                                              *)
LegalP(mm, P) ==
  /\ \A a \in App : a \notin mm.apps => P[a] = ""
  /\ \A a \in mm.apps : P[a] \in {""} \cup mm.up \cup {mm.placed[a]}
  /\ \A s \in Srv : CountOn(P, s) <= Cap

Kept(mm, P, a) == P[a] # "" /\ P[a] = mm.placed[a] /\ mm.id[a] # -1

RECURSIVE AssignIds(_, _, _, _)
AssignIds(mm, P, j, I) ==
  IF j > Len(AppSeq) THEN I
  ELSE LET a == AppSeq[j] IN
       IF P[a] = "" \/ Kept(mm, P, a) THEN AssignIds(mm, P, j + 1, I)
       ELSE LET used == {I[b] : b \in App}
                id == CHOOSE i \in 0..Cardinality(App) : i \notin used
                          /\ \A k \in 0..Cardinality(App) : k \notin used => i <= k
            IN AssignIds(mm, P, j + 1, [I EXCEPT ![a] = id])

NewModel(mm, P, R) ==
  LET I0 == [a \in App |-> IF Kept(mm, P, a) THEN mm.id[a] ELSE -1]
      I == AssignIds(mm, P, 1, I0)
      X == [a \in App |-> IF P[a] = "" THEN -1
                           ELSE IF P[a] = mm.placed[a] /\ a \notin R /\ mm.exp[a] # -1
                           THEN mm.exp[a] ELSE clock]
  IN [mm EXCEPT !.placed = P, !.id = I, !.exp = X]

RECURSIVE Concat(_)
Concat(ss) == IF ss = <<>> THEN <<>> ELSE Head(ss) \o Concat(Tail(ss))

(* reschedule(): pass 1 deletes old nodes of moved apps, pass 2 puts new data *)
ReschedWrites(old, new) ==
  LET changed(a) == old.placed[a] # new.placed[a] \/ old.exp[a] # new.exp[a]
      dels == [j \in DOMAIN AppSeq |->
                 LET a == AppSeq[j] IN
                 IF changed(a) /\ old.placed[a] # "" /\ old.placed[a] # new.placed[a]
                 THEN <<<<"del", old.placed[a], a>>>> ELSE <<>>]
      puts == [j \in DOMAIN AppSeq |->
                 LET a == AppSeq[j] IN
                 IF changed(a) /\ new.placed[a] # ""
                 THEN <<<<"put", new.placed[a], a, new.id[a], new.exp[a]>>>> ELSE <<>>]
  IN Concat(dels) \o Concat(puts)

(* init_schedule() against the stored state st *)
InitWrites(st, new) ==
  LET cur(s) == {a \in App : st.pl[s][a] # None}
      cor(s) == {a \in App : new.placed[a] = s}
      dels(s) == [j \in DOMAIN AppSeq |-> IF AppSeq[j] \in cur(s) \ cor(s)
                                           THEN <<<<"del", s, AppSeq[j]>>>> ELSE <<>>]
      upd(s) == [j \in DOMAIN AppSeq |->
                   LET a == AppSeq[j] IN
                   IF a \in cor(s) \cap cur(s) /\ "init_names_only" \notin Defects
                      /\ (st.pl[s][a].id # new.id[a] \/ st.pl[s][a].exp # new.exp[a])
                   THEN <<<<"put", s, a, new.id[a], new.exp[a]>>>> ELSE <<>>]
      crt(s) == [j \in DOMAIN AppSeq |->
                   LET a == AppSeq[j] IN
                   IF a \in cor(s) \ cur(s)
                   THEN <<<<"put", s, a, new.id[a], new.exp[a]>>>> ELSE <<>>]
  IN IF "init_not_two_pass" \in Defects
     THEN Concat([k \in DOMAIN SrvSeq |->
                    Concat(dels(SrvSeq[k])) \o Concat(upd(SrvSeq[k])) \o Concat(crt(SrvSeq[k]))])
     ELSE Concat([k \in DOMAIN SrvSeq |-> Concat(dels(SrvSeq[k]))])
          \o Concat([k \in DOMAIN SrvSeq |-> Concat(upd(SrvSeq[k])) \o Concat(crt(SrvSeq[k]))])

-----------------------------------------------------------------------------
(* load_model(): restore_placements.  Returns [m, writes].                   *)
RECURSIVE RestoreApps(_, _, _, _)
RestoreApps(st, s, j, acc) ==   \* acc = [placed, id, exp, writes]
  IF j > Len(AppSeq) THEN acc
  ELSE LET a == AppSeq[j] node == st.pl[s][a] IN
    IF node = None THEN RestoreApps(st, s, j + 1, acc)
    ELSE IF a \notin st.sched
    THEN RestoreApps(st, s, j + 1, [acc EXCEPT !.writes = Append(@, <<"del", s, a>>)])
    ELSE
      LET room == CountOn(acc.placed, s) < Cap /\ acc.placed[a] = ""
          same == st.pres[s] # 0 /\ st.pres[s] <= node.ct
          e == IF same THEN node.exp ELSE clock
      IN IF room
         THEN RestoreApps(st, s, j + 1,
                [acc EXCEPT !.placed[a] = s, !.id[a] = node.id, !.exp[a] = e,
                            !.multi[a] = @ \cup {s},
                            !.writes = IF e # node.exp /\ "init_names_only" \notin Defects
                                       THEN Append(@, <<"put", s, a, node.id, e>>) ELSE @])
         ELSE IF acc.placed[a] # "" /\ CountOn(acc.placed, s) < Cap
         THEN \* already restored under another server: restored here as well (integrity error)
              RestoreApps(st, s, j + 1, [acc EXCEPT !.multi[a] = @ \cup {s}])
         ELSE RestoreApps(st, s, j + 1, [acc EXCEPT !.writes = Append(@, <<"del", s, a>>)])

RECURSIVE RestoreServers(_, _, _)
RestoreServers(st, k, acc) ==
  IF k > Len(SrvSeq) THEN acc ELSE RestoreServers(st, k + 1, RestoreApps(st, SrvSeq[k], 1, acc))

LoadModel(st) ==
  LET acc0 == [placed |-> [a \in App |-> ""], id |-> [a \in App |-> -1],
               exp |-> [a \in App |-> -1], multi |-> [a \in App |-> {}], writes |-> <<>>]
      acc == RestoreServers(st, 1, acc0)
      dup == {a \in App : Cardinality(acc.multi[a]) > 1}
      dupw == Concat([j \in DOMAIN AppSeq |->
                        IF AppSeq[j] \in dup
                        THEN Concat([k \in DOMAIN SrvSeq |->
                                       IF SrvSeq[k] \in acc.multi[AppSeq[j]]
                                       THEN <<<<"del", SrvSeq[k], AppSeq[j]>>>> ELSE <<>>])
                        ELSE <<>>])
  IN [m |-> [alive |-> TRUE, apps |-> st.sched, up |-> {s \in Srv : st.pres[s] # 0},
             placed |-> [a \in App |-> IF a \in dup THEN "" ELSE acc.placed[a]],
             id |-> [a \in App |-> IF a \in dup THEN acc.id[a] ELSE acc.id[a]],
             exp |-> [a \in App |-> IF a \in dup THEN -1 ELSE acc.exp[a]]],
      writes |-> acc.writes \o dupw]

-----------------------------------------------------------------------------
(* environment (ZooKeeper-level events); handlers of a live master run       *)
(* between cycles                                                            *)
Quiet == phase = "idle" \/ phase = "down"
Ev == n < MaxEvents /\ n' = n + 1 /\ fresh' = FALSE /\ UNCHANGED <<pub, phase, pre, err, nc>>

Schedule(a) ==
  /\ Quiet /\ a \notin store.sched /\ Ev
  /\ store' = [store EXCEPT !.sched = @ \cup {a}]
  /\ m' = IF m.alive THEN [m EXCEPT !.apps = @ \cup {a}] ELSE m
  /\ UNCHANGED <<zt, clock>>

(* delete_apps + Master.remove_app (deletes the placement node at once) *)
Unschedule(a) ==
  /\ Quiet /\ a \in store.sched /\ Ev
  /\ store' = IF m.alive /\ m.placed[a] # ""
              THEN [store EXCEPT !.sched = @ \ {a}, !.pl[m.placed[a]][a] = None]
              ELSE [store EXCEPT !.sched = @ \ {a}]
  /\ m' = IF m.alive THEN [m EXCEPT !.apps = @ \ {a}, !.placed[a] = "", !.id[a] = -1,
                                     !.exp[a] = -1] ELSE m
  /\ UNCHANGED <<zt, clock>>

NodeDown(s) ==
  /\ Quiet /\ store.pres[s] # 0 /\ Ev
  /\ store' = [store EXCEPT !.pres[s] = 0]
  /\ m' = IF m.alive THEN [m EXCEPT !.up = @ \ {s}] ELSE m
  /\ UNCHANGED <<zt, clock>>

NodeUp(s) ==
  /\ Quiet /\ store.pres[s] = 0 /\ Ev
  /\ store' = [store EXCEPT !.pres[s] = zt + 1]
  /\ zt' = zt + 1
  /\ m' = IF m.alive THEN [m EXCEPT !.up = @ \cup {s}] ELSE m
  /\ UNCHANGED clock

Tick == /\ Quiet /\ clock < MaxClock /\ Ev /\ clock' = clock + 1
        /\ UNCHANGED <<store, m, zt>>

-----------------------------------------------------------------------------
Cycle(P, R) ==
  /\ phase = "idle" /\ m.alive
  /\ LegalP(m, P)
  /\ LET new == NewModel(m, P, R) IN
     /\ m' = new
     /\ pub' = ReschedWrites(m, new)
  /\ phase' = "pub" /\ fresh' = FALSE
  /\ nc < MaxCycles /\ nc' = nc + 1
  /\ UNCHANGED <<store, zt, clock, pre, err, n>>

PubStep ==
  /\ phase \in {"pub", "load", "init"} /\ pub # <<>>
  /\ store' = Write(store, Head(pub))
  /\ pub' = Tail(pub)
  /\ UNCHANGED <<m, phase, zt, clock, fresh, pre, err, n, nc>>

(* check_placement_integrity after a completed publication *)
Integrity(st, mm) ==
  LET dup == {a \in App : Cardinality({s \in Srv : st.pl[s][a] # None}) > 1}
      bad == \E a \in dup : a \notin mm.apps \/ mm.placed[a] \notin {s \in Srv : st.pl[s][a] # None}
      st1 == [st EXCEPT !.pl = [s \in Srv |-> [a \in App |->
                 IF a \in dup /\ a \in mm.apps /\ mm.placed[a] # s THEN None ELSE st.pl[s][a]]]]
      missing == \E a \in mm.apps : mm.placed[a] # "" /\ st1.pl[mm.placed[a]][a] = None
  IN [st |-> st1, err |-> bad \/ missing]

Finish ==
  /\ phase \in {"pub", "init"} /\ pub = <<>>
  /\ LET r == Integrity(store, m) IN
     /\ store' = r.st
     /\ err' = (err \/ r.err)
  /\ phase' = "idle" /\ fresh' = TRUE
  /\ UNCHANGED <<m, pub, zt, clock, pre, n, nc>>

Crash ==
  /\ phase \in {"pub", "load", "init", "idle"} /\ m.alive
  /\ m' = Dead /\ pub' = <<>> /\ phase' = "down" /\ fresh' = FALSE
  /\ UNCHANGED <<store, zt, clock, pre, err, n, nc>>

(* a new master: load_model (its writes are issued one by one) ...           *)
Restart ==
  /\ phase = "down"
  /\ LET r == LoadModel(store) IN
     /\ m' = r.m
     /\ pub' = r.writes
  /\ pre' = store
  /\ phase' = "load" /\ fresh' = FALSE
  /\ nc < MaxCycles /\ nc' = nc + 1
  /\ UNCHANGED <<store, zt, clock, err, n>>

(* ... then init_schedule: one cycle and its publication                     *)
InitSchedule(P, R) ==
  /\ phase = "load" /\ pub = <<>>
  /\ LegalP(m, P)
  /\ LET new == NewModel(m, P, R) IN
     /\ m' = new
     /\ pub' = InitWrites(store, new)
  /\ phase' = "init"
  /\ UNCHANGED <<store, zt, clock, fresh, pre, err, n, nc>>

Next ==
  \/ \E a \in App : Schedule(a)
  \/ \E a \in App : Unschedule(a)
  \/ \E s \in Srv : NodeDown(s)
  \/ \E s \in Srv : NodeUp(s)
  \/ Tick
  \/ \E P \in [App -> Srv \cup {""}], R \in SUBSET App : Cycle(P, R)
  \/ PubStep \/ Finish \/ Crash \/ Restart
  \/ \E P \in [App -> Srv \cup {""}], R \in SUBSET App : InitSchedule(P, R)

Spec == Init /\ [][Next]_vars

-----------------------------------------------------------------------------
InvC10dup == C10dup(StoreView)
InvC09 == (fresh /\ phase = "idle" /\ m.alive) =>
            /\ C09exists(StoreView, ModelView(m)) /\ C09noExtra(StoreView, ModelView(m))
            /\ C09identity(StoreView, ModelView(m)) /\ C09expiry(StoreView, ModelView(m))
InvNoAssert == ~err
(* C11, evaluated when load_model() has finished (its writes issued) *)
PreView == [placement |-> [s \in Srv |->
      [apps |-> [a \in {x \in App : pre.pl[s][x] # None} |->
                   [identity |-> pre.pl[s][a].id, expires |-> pre.pl[s][a].exp,
                    ctime |-> pre.pl[s][a].ct]]]],
   presence |-> [s \in {x \in Srv : pre.pres[x] # 0} |-> pre.pres[s]],
   scheduled |-> pre.sched]
InvC11 == (phase = "load" /\ pub = <<>>) =>
            /\ C11kept(PreView, ModelView(m)) /\ C11identity(PreView, ModelView(m))
            /\ C11expiry(PreView, ModelView(m)) /\ C11nothingNew(PreView, ModelView(m))
=============================================================================
