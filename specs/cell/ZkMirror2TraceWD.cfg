SPECIFICATION Spec
CONSTANTS
  Srv = {"s1", "s2", "s3"}
  Ins = {"i1", "i2"}
  MaxVal = 3
  InnerWD = TRUE
CHECK_DEADLOCK FALSE
