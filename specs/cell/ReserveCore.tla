---------------------------- MODULE ReserveCore ----------------------------
(* Reservation admission (api/allocation.py: _check_capacity, _calc_free,    *)
(* _calc_free_traits, _check_limit and the reservation create/update        *)
(* closures) as FUNCTIONS over an abstract state (DESIGN.md 3.1).            *)
(* Reserve.tla turns them into a next-state relation for TLC;               *)
(* ReserveTrace.tla uses the very same operators as predicates over a       *)
(* logged (pre, request, outcome, post).                                    *)
(*                                                                          *)
(* Abstract state  st = [parts, res]                                        *)
(*   parts : <<cell, partition>> -> [cap : Vec, limits : trait -> Vec]      *)
(*           (a pair that is not in the domain is a partition that does not *)
(*           exist: zero capacity, no limits -- _partition_get)             *)
(*   res   : id -> [part, traits, q : Vec]     id = [alloc, cell]           *)
(* Vec = <<cpu, memory, disk>> in BASE units (cpu units, kibibytes).        *)
(* Requests and partition definitions carry SPELLINGS <<mantissa, suffix>>  *)
(* ("100%", "1G", "1024m"); Units gives their meaning.                      *)
(*                                                                          *)
(* Defects: the code defects the model should REPRODUCE; {} = the repaired  *)
(* behaviour, which is what the property demands.                           *)
(*   "trait_uses_cpu"       _calc_free_traits subtracts alloc['cpu'] for    *)
(*                          disk and memory: size_to_bytes('100%') raises   *)
(*                          ValueError as soon as another reservation of    *)
(*                          the partition carries a limited trait of the    *)
(*                          request                                         *)
(*   "update_checks_request" update() checks the REQUEST, then stores the   *)
(*                          request merged into the old reservation: traits *)
(*                          the request does not mention are kept but their *)
(*                          limits are never checked                        *)
(*   "clamp_free"           _calc_free / _calc_free_traits return           *)
(*                          max(free, 0): on a partition (or under a trait  *)
(*                          limit) that is already oversubscribed in a      *)
(*                          dimension, a request for exactly zero in that   *)
(*                          dimension passes 0 <= 0 and is accepted         *)
(*                                                                          *)
(* OVERSUBSCRIPTION is a legal state: the environment may rewrite a         *)
(* partition record with a smaller capacity or trait limit (Reconf).  What  *)
(* the code does then, and what the property demands, is the same rule as   *)
(* always -- free = capacity - sum(others) PER DIMENSION, possibly          *)
(* NEGATIVE; a request is refused unless demand <= free in EVERY dimension; *)
(* a zero demand does not pass a negative remainder (0 <= -N is false), so  *)
(* nothing at all is admitted into an oversubscribed partition, nor any     *)
(* reservation carrying an oversubscribed trait, until it is back within    *)
(* its bounds.                                                              *)
EXTENDS Naturals, Integers, Sequences, FiniteSets, TLC

CONSTANT Defects

-----------------------------------------------------------------------------
(* units: utils.cpu_units, utils.size_to_bytes (binary multiples; schema    *)
(* common.json: cpu ^\d+%$, memory/disk ^\d+[KkMmGg]$)                       *)

Scale(sfx) == CASE sfx \in {"K", "k"} -> 1
                [] sfx \in {"M", "m"} -> 1024
                [] sfx \in {"G", "g"} -> 1048576
                [] sfx = "%" -> 1

Units(sp) == sp[1] * Scale(sp[2])

Dims == 1..3
Zero == <<0, 0, 0>>
ValOf(x) == <<Units(x.cpu), Units(x.memory), Units(x.disk)>>
AllLe(u, v) == \A d \in Dims : u[d] <= v[d]
AddV(u, v) == [d \in Dims |-> u[d] + v[d]]

-----------------------------------------------------------------------------
(* what is already promised                                                 *)

Present(st) == DOMAIN st.res

RECURSIVE SumQ(_, _)
SumQ(res, S) == IF S = {} THEN Zero
                ELSE LET j == CHOOSE x \in S : TRUE
                     IN AddV(res[j].q, SumQ(res, S \ {j}))

(* reservations of (cell, part) other than `id`: admin list({cell,partition}) *)
(* minus old_id                                                              *)
Others(st, id, part) ==
  {j \in Present(st) : j # id /\ j.cell = id.cell /\ st.res[j].part = part}

Cap(st, cell, part) ==
  IF <<cell, part>> \in DOMAIN st.parts THEN st.parts[<<cell, part>>].cap ELSE Zero

Limits(st, cell, part) ==
  IF <<cell, part>> \in DOMAIN st.parts THEN st.parts[<<cell, part>>].limits
  ELSE [t \in {} |-> Zero]

-----------------------------------------------------------------------------
(* the reservation a request stands for.  Request r = [part, tg, traits,    *)
(* cpu, memory, disk]; tg = "the request has a traits field".  Create of a  *)
(* request without the field stores no traits; update() merges the request  *)
(* into the stored reservation, so an Update without the field KEEPS the    *)
(* traits.                                                                  *)

EffTraits(st, id, r) ==
  IF r.tg THEN r.traits
  ELSE IF id \in Present(st) THEN st.res[id].traits ELSE {}

Effective(st, id, r) == [part |-> r.part, traits |-> EffTraits(st, id, r), q |-> ValOf(r)]

(* the traits whose limits are looked at *)
CheckedTraits(st, id, r) ==
  IF "update_checks_request" \in Defects THEN r.traits ELSE EffTraits(st, id, r)

(* free = bound - what the others hold, per dimension; may be NEGATIVE       *)
(* (_calc_free, _calc_free_traits); the request passes when demand <= free  *)
(* in every dimension (_check_limit)                                        *)
SubV(u, v) == [d \in Dims |-> u[d] - v[d]]
Clamp(u) == IF "clamp_free" \in Defects THEN [d \in Dims |-> IF u[d] < 0 THEN 0 ELSE u[d]] ELSE u
FreeOverall(st, id, part) ==
  Clamp(SubV(Cap(st, id.cell, part), SumQ(st.res, Others(st, id, part))))
FreeTrait(st, id, part, t) ==
  Clamp(SubV(Limits(st, id.cell, part)[t],
             SumQ(st.res, {j \in Others(st, id, part) : t \in st.res[j].traits})))

FitsOverall(st, id, e) == AllLe(e.q, FreeOverall(st, id, e.part))

FitsTrait(st, id, e, t) ==
  t \in DOMAIN Limits(st, id.cell, e.part) => AllLe(e.q, FreeTrait(st, id, e.part, t))

(* the property's notion of "fits": the reservation as it will be stored     *)
Fits(st, id, r) ==
  LET e == Effective(st, id, r) IN
  FitsOverall(st, id, e) /\ \A t \in e.traits : FitsTrait(st, id, e, t)

(* what the admission code answers: "ok" | "invalid" | "crash"              *)
Outcome(st, id, r) ==
  LET e == Effective(st, id, r)
      ct == CheckedTraits(st, id, r) \cap DOMAIN Limits(st, id.cell, e.part)
      c == [e EXCEPT !.traits = ct]
  IN IF ~FitsOverall(st, id, e) THEN "invalid"
     ELSE IF "trait_uses_cpu" \in Defects
             /\ \E t \in ct : \E j \in Others(st, id, e.part) : t \in st.res[j].traits
     THEN "crash"
     ELSE IF \A t \in ct : FitsTrait(st, id, c, t) THEN "ok" ELSE "invalid"

Store(st, id, r) ==
  LET e == Effective(st, id, r)
      dom == Present(st) \cup {id}
  IN [st EXCEPT !.res = [j \in dom |-> IF j = id THEN e ELSE st.res[j]]]

Drop(st, id) == [st EXCEPT !.res = [j \in Present(st) \ {id} |-> st.res[j]]]

(* successor of a Create/Update request given the outcome                   *)
After(st, id, r, out) == IF out = "ok" THEN Store(st, id, r) ELSE st

(* the environment rewrites (or creates) a partition record                 *)
Reconf(st, cell, part, p) ==
  [st EXCEPT !.parts = [k \in DOMAIN st.parts \cup {<<cell, part>>} |->
                          IF k = <<cell, part>> THEN p ELSE st.parts[k]]]

-----------------------------------------------------------------------------
(* C19: what is promised never exceeds capacity / trait limits              *)

Groups(st) == {<<j.cell, st.res[j].part>> : j \in Present(st)}
InGroup(st, g) == {j \in Present(st) : j.cell = g[1] /\ st.res[j].part = g[2]}

InvCapacity(st) ==
  \A g \in Groups(st) : AllLe(SumQ(st.res, InGroup(st, g)), Cap(st, g[1], g[2]))

InvTraitLimits(st) ==
  \A g \in Groups(st) :
    LET lim == Limits(st, g[1], g[2]) IN
    \A t \in DOMAIN lim :
      AllLe(SumQ(st.res, {j \in InGroup(st, g) : t \in st.res[j].traits}), lim[t])

InvC19(st) == InvCapacity(st) /\ InvTraitLimits(st)

(* the same, one constraint at a time: <<cell, part, "">> is the capacity   *)
(* of a partition, <<cell, part, t>> the limit of trait t in it             *)
Constraints(st) ==
  {<<g[1], g[2], "">> : g \in Groups(st)}
  \cup UNION {{<<g[1], g[2], t>> : t \in DOMAIN Limits(st, g[1], g[2])} : g \in Groups(st)}
Holds(st, c) ==
  LET members == InGroup(st, <<c[1], c[2]>>) IN
  IF c[3] = "" THEN AllLe(SumQ(st.res, members), Cap(st, c[1], c[2]))
  ELSE c[3] \in DOMAIN Limits(st, c[1], c[2]) =>
         AllLe(SumQ(st.res, {j \in members : c[3] \in st.res[j].traits}), Limits(st, c[1], c[2])[c[3]])

(* what an ACCEPTED reservation guarantees, whatever state the rest is in:  *)
(* its own partition is within capacity and every limited trait it carries  *)
(* within its limit (with no reconfiguration, by induction, InvC19)         *)
LocalOk(st, id) ==
  id \in Present(st) =>
    /\ Holds(st, <<id.cell, st.res[id].part, "">>)
    /\ \A t \in st.res[id].traits : Holds(st, <<id.cell, st.res[id].part, t>>)

(* exercised: the request meets a partition / trait that is already over    *)
OverDims(st, id, r) ==
  LET e == Effective(st, id, r)
      f == SubV(Cap(st, id.cell, e.part), SumQ(st.res, Others(st, id, e.part)))
      ft(t) == SubV(Limits(st, id.cell, e.part)[t],
                    SumQ(st.res, {j \in Others(st, id, e.part) : t \in st.res[j].traits}))
  IN {d \in Dims : f[d] < 0}
     \cup UNION {{d \in Dims : ft(t)[d] < 0} : t \in e.traits \cap DOMAIN Limits(st, id.cell, e.part)}
ZeroIntoOver(st, id, r) ==
  LET e == Effective(st, id, r) IN
  (\E d \in OverDims(st, id, r) : e.q[d] = 0) /\ (\E d \in Dims : e.q[d] > 0)

(* exercised: the per-trait accounting really has something to count        *)
SharesLimitedTrait(st, id, r) ==
  LET e == Effective(st, id, r) IN
  \E t \in e.traits \cap DOMAIN Limits(st, id.cell, e.part) :
    \E j \in Others(st, id, e.part) : t \in st.res[j].traits
=============================================================================
