INIT Init
NEXT Next
CHECK_DEADLOCK FALSE
CONSTANT Defects = {"scheduled_why_none"}
INVARIANT InvRoundTrip
