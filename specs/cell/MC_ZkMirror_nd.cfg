SPECIFICATION Spec
CONSTANTS
  Keys = {"k1", "k2"}
  MaxVal = 2
  WatchData = FALSE
  MaxEnv = 5
  MaxLife = 1
INVARIANTS TypeOK InvNoExtra InvFresh InvBacked InvArmed InvOneNote InvCompleteNoData
PROPERTY HealsOnChildRun
CHECK_DEADLOCK FALSE
