---------------------------- MODULE ZkMirrorTrace ----------------------------
(* Trace specification for recorded executions of the real zksync.zk2fs.Zk2Fs *)
(* (harness/zkmirror_driver.py).  Batch: [traces |-> << [tid, wd, lines] >>]; *)
(* line 1 is the initial state, every later line one event (Create / Set /    *)
(* Delete by another client; Deliver = the client's oldest undelivered watch  *)
(* notification runs its callback; Stop / Start of the mirror process) with   *)
(* the projection observed after it: node values, file contents, the object's *)
(* `watches` set, number of notifications in flight.                          *)
(* The model state (watch objects, queue) is carried along, never taken from  *)
(* the log; every step must be the value of the model's successor function.   *)
(*   ext.zk2fs.step     observed projection # Proj(Do(pre, event))            *)
(*   ext.zk2fs.noExtra  settled and a file exists for a node that does not    *)
(*   ext.zk2fs.fresh    settled, watch_data, and a file differs from its node *)
(* flags: settled, gap (settled and an existing node has no file - the model's *)
(* InvComplete counterexample observed on the code), stale (no watch_data and  *)
(* a file holds older data).   Conformance class: DRIFT (exit 0).              *)
EXTENDS ZkMirrorOps, TraceLib, Json, IOUtils

Batch == JsonDeserialize(IOEnv.TRACE_FILE)
Traces == Batch.traces

VARIABLES t, i, st

Apply(s, line, wd) ==
  CASE line.ev = "Create"  -> DoCreate(s, line.k, line.v)
    [] line.ev = "Set"     -> DoSet(s, line.k, line.v)
    [] line.ev = "Delete"  -> DoDelete(s, line.k)
    [] line.ev = "Deliver" -> IF CanDeliver(s) THEN DoDeliver(s, wd) ELSE s
    [] line.ev = "Stop"    -> DoStop(s)
    [] line.ev = "Start"   -> DoStart(s, wd)
    [] OTHER -> s

Obs(post) == [zk |-> [k \in Keys |-> Get(post.zk, k, 0)], fs |-> [k \in Keys |-> Get(post.fs, k, 0)],
              watches |-> SetOf(post.watches), qlen |-> post.qlen]

F(name, ok) == IF ok THEN {} ELSE {name}
E(name, on) == IF on THEN {name} ELSE {}

Init == /\ t \in DOMAIN Traces
        /\ i = 1
        /\ st = Init0

Next == /\ i < Len(Traces[t].lines)
        /\ i' = i + 1
        /\ t' = t
        /\ LET line == Traces[t].lines[i + 1]
               wd == Traces[t].wd
               nx == Apply(st, line, wd)
               o == Obs(line.post)
               settled == line.post.up /\ o.qlen = 0
           IN /\ st' = nx
              /\ PrintT(ToJson([tid |-> Traces[t].tid, i |-> i,
                   fail |-> F("ext.zk2fs.step", Proj(nx) = o /\ nx.up = line.post.up)
                            \cup F("ext.zk2fs.noExtra", settled => \A k \in Keys : o.fs[k] # 0 => o.zk[k] # 0)
                            \cup F("ext.zk2fs.fresh", (settled /\ wd) => \A k \in Keys : o.fs[k] # 0 => o.fs[k] = o.zk[k]),
                   ex |-> E("settled", settled)
                          \cup E("gap", settled /\ \E k \in Keys : o.zk[k] # 0 /\ o.fs[k] = 0)
                          \cup E("stale", settled /\ ~wd /\ \E k \in Keys : o.fs[k] # 0 /\ o.fs[k] # o.zk[k])
                          \cup E("latency", line.ev = "Deliver" /\ Len(st.q) > 1)]))

Spec == Init /\ [][Next]_<<t, i, st>>
=============================================================================
