--------------------------- MODULE ArchiveTrace ---------------------------
(* Trace specification for executions of the REAL archiver recorded by      *)
(* harness/archive_driver.py (C18).  Batch file (env TRACE_FILE):           *)
(*   [traces |-> << [tid, lines] >>]; line 1 = the population; every later  *)
(* line = one call of cleanup_trace / cleanup_finished / cleanup_server_trace*)
(* (ev "Archive", possibly cut at its k-th ZooKeeper write, possibly with   *)
(* other clients acting in the middle), one call of cleanup_*_history (ev   *)
(* "Prune", possibly cut) or one environment step (ev "Env"), each with the *)
(* projected state after it.  TOTAL: every line is consumed, the logged     *)
(* post-state is adopted, the failed clauses are printed.                   *)
(*                                                                          *)
(* Clauses (C18.* are the property, nothing stronger; drift.* = "not what   *)
(* the model computes", never a violation):                                 *)
(*  C18.lossless      every event / finished record that was live or in a   *)
(*                    snapshot before the call is afterwards live or         *)
(*                    retrievable: present in the decompressed sqlite rows   *)
(*                    AND found by the code's own reader (download_batch;    *)
(*                    list_traces + the api/state query for /finished).      *)
(*                    Identity = (node name, archived data).  On Prune       *)
(*                    lines: nothing live disappears, other kinds untouched. *)
(*  C18.liveScheduled events of instances scheduled from before the call to  *)
(*                    after it are still live                                *)
(*  C18.liveYoung     events whose age at the END of the call is < expiry    *)
(*                    are still live (age = expiry is the code's `<`         *)
(*                    boundary: drift only, the statement says "younger")    *)
(*  C18.fullBatch     every snapshot created holds exactly batch rows; when  *)
(*                    fewer than batch events could be eligible at all,      *)
(*                    nothing leaves and no snapshot appears                 *)
(*  C18.pruneNewest   a completed Prune keeps exactly the max highest        *)
(*                    sequence numbers, unchanged; a cut one a superset      *)
(*  drift.step        post-state = the model's successor (ArchiveOps)        *)
EXTENDS ArchiveOps, TraceLib, Json, IOUtils

Batch == JsonDeserialize(IOEnv.TRACE_FILE)
Traces == Batch.traces

VARIABLES t, i, st

Kinds == {"trace", "finished", "server"}

CanonEv(j) == [name |-> j.name, inst |-> j.inst, ts |-> j.ts, sh |-> j.sh, k |-> j.k,
               data |-> j.data]
CanonSnap(j) == [seq |-> j.seq, rows |-> {CanonEv(j.rows[x]) : x \in DOMAIN j.rows},
                 nrows |-> Len(j.rows), dl |-> SetOf(j.dl),
                 pathok |-> \A x \in DOMAIN j.rows : j.rows[x].pathok]
CanonKind(j) == [live |-> {CanonEv(j.live[x]) : x \in DOMAIN j.live},
                 snaps |-> {CanonSnap(j.snaps[x]) : x \in DOMAIN j.snaps},
                 listed |-> SetOf(j.listed)]
Canon(js) == [now |-> js.now, sched |-> SetOf(js.sched),
              kinds |-> [kd \in Kinds |-> CanonKind(js.kinds[kd])]]

F(name, holds) == IF holds THEN {} ELSE {name}
E(name, cond) == IF cond THEN {name} ELSE {}

Id(e) == <<e.name, e.data>>
Ids(S) == {Id(e) : e \in S}
SeqsOf(K) == {s.seq : s \in K.snaps}
RowsOf(K) == UNION {s.rows : s \in K.snaps}
NewSnaps(P, Q) == {s \in Q.snaps : s.seq \notin SeqsOf(P)}
Added(line, kd) == {CanonEv(line.added[kd][x]) : x \in DOMAIN line.added[kd]}
(* what was live before the call, minus the /finished records another client *)
(* REWROTE during it (a second terminal event of the same instance: the new  *)
(* record is in Added; the old one was replaced by its producer, not lost by *)
(* the archiver)                                                             *)
PreLive(pre, line, kd) ==
  IF kd = "finished" THEN {e \in pre.kinds[kd].live : e.name \notin SetOf(line.touched)}
  ELSE pre.kinds[kd].live

Retrievable(K, kd, e) ==
  /\ Id(e) \in Ids(RowsOf(K))
  /\ \E s \in K.snaps : e.name \in s.dl
  /\ (kd = "finished" => e.name \in K.listed)
Kept(K, kd, e) == Id(e) \in Ids(K.live) \/ Retrievable(K, kd, e)

(* instances scheduled from before the call to after it *)
Through(pre, line, post) == (pre.sched \cup SetOf(line.newsched)) \cap post.sched

Lossless(pre, line, post) ==
  \A kd \in Kinds : \A e \in PreLive(pre, line, kd) \cup RowsOf(pre.kinds[kd]) :
     Kept(post.kinds[kd], kd, e)

LiveScheduled(pre, line, post) ==
  \A e \in pre.kinds["trace"].live \cup Added(line, "trace") :
     e.inst \in Through(pre, line, post) => Id(e) \in Ids(post.kinds["trace"].live)

LiveYoung(pre, line, post) ==
  line.kind \in {"trace", "finished"} =>
    \A e \in PreLive(pre, line, line.kind) \cup Added(line, line.kind) :
       e.ts + line.expiry > post.now => Id(e) \in Ids(post.kinds[line.kind].live)

(* everything that could have been eligible at some moment of the call *)
MaybeEligible(pre, line, post) ==
  {e \in pre.kinds[line.kind].live \cup Added(line, line.kind) :
     /\ (line.kind = "trace" => e.inst \notin Through(pre, line, post))
     /\ (line.kind # "server" => e.ts + line.expiry <= post.now)}

FullBatch(pre, line, post) ==
  LET P == pre.kinds[line.kind]
      Q == post.kinds[line.kind] IN
  /\ \A s \in NewSnaps(P, Q) : s.nrows = line.batch /\ Cardinality(s.rows) = line.batch
  /\ (Cardinality(MaybeEligible(pre, line, post)) < line.batch =>
        NewSnaps(P, Q) = {} /\ Ids(PreLive(pre, line, line.kind)) \subseteq Ids(Q.live))

PruneNewest(pre, line, post) ==
  LET P == pre.kinds[line.kind]
      Q == post.kinds[line.kind]
      keep == TopN(SeqsOf(P), line.max) IN
  /\ keep \subseteq SeqsOf(Q) /\ SeqsOf(Q) \subseteq SeqsOf(P)
  /\ (~line.crashed => SeqsOf(Q) = keep)
  /\ \A s \in Q.snaps : s \in P.snaps

PruneKeepsRest(pre, line, post) ==
  /\ \A kd \in Kinds : Ids(pre.kinds[kd].live) \subseteq Ids(post.kinds[kd].live)
  /\ \A kd \in Kinds \ {line.kind} : pre.kinds[kd].snaps \subseteq post.kinds[kd].snaps

(* cleanup_finished forms its batches in the order in which ZooKeeper listed    *)
(* /finished (line.forder, as the archiver's own get_children returned it);    *)
(* the other archivers sort by (timestamp, shard, name).  SortedEligible is the *)
(* sequence of eligible events in the order of the code (finished records are  *)
(* re-keyed by their listing position: compare its elements by NAME).          *)
Rekey(kd, line, S) ==
  IF kd = "finished" /\ line.forder # <<>>
  THEN {[e EXCEPT !.k = IndexOf(line.forder, e.name)] : e \in S} ELSE S
SortedEligible(pre, line, kd) ==
  OrderSeq(kd, Rekey(kd, line, EligibleSet(kd, pre.kinds[kd].live, pre.sched, pre.now, line.expiry)))
NamesOf(S) == {e.name : e \in S}
ByName(S, names) == {e \in S : e.name \in names}

(* ---- the model's successor ------------------------------------------------ *)
FrameOthers(pre, line, post, kds) ==
  /\ \A kd \in kds : /\ post.kinds[kd].live = PreLive(pre, line, kd) \cup Added(line, kd)
                     /\ post.kinds[kd].snaps = pre.kinds[kd].snaps
  /\ post.sched = (pre.sched \cup SetOf(line.newsched)) \ SetOf(line.unsched)
  /\ post.now = pre.now + line.tick

ArchiveExplained(pre, line, post) ==
  LET kd == line.kind
      P == pre.kinds[kd]
      Q == post.kinds[kd]
      B == line.batch
      S == SortedEligible(pre, line, kd)
      W == TotalWrites(S, B)
      nd == NDeleted(line.nw, B)
      ns == NSnaps(line.nw, B)
      new == NewSnaps(P, Q)
  IN
  \/ kd = "server" /\ line.injected   \* re-listing may pick up concurrent events: not predicted
  \/ kd = "finished" /\ line.touched # <<>>   \* a record rewritten in the middle of the call
  \/ /\ IF line.crashed THEN line.nw = line.cut - 1 /\ line.nw < W ELSE line.nw = W
     /\ Q.live = (P.live \ ByName(P.live, {S[x].name : x \in 1..nd})) \cup Added(line, kd)
     /\ P.snaps \subseteq Q.snaps
     /\ Cardinality(new) = ns
     /\ \A s \in new :
          LET j == 1 + Cardinality({u \in new : u.seq < s.seq}) IN
          /\ s.rows = ByName(P.live, NamesOf(BatchSet(S, B, j))) /\ s.nrows = B /\ s.pathok
          /\ s.dl = {e.name : e \in s.rows}
          /\ \A u \in P.snaps : u.seq < s.seq
     /\ FrameOthers(pre, line, post, Kinds \ {kd})

PruneExplained(pre, line, post) ==
  LET kd == line.kind
      P == pre.kinds[kd]
      Q == post.kinds[kd]
      seqs == SeqsOf(P)
      extra == Max2(Cardinality(seqs) - line.max, 0)
      victims == BottomSeq(seqs, extra)
  IN
  /\ IF line.crashed THEN line.nw = line.cut - 1 /\ line.nw < extra ELSE line.nw = extra
  /\ Q.snaps = {s \in P.snaps : s.seq \notin {victims[x] : x \in 1..line.nw}}
  /\ Q.live = P.live
  /\ FrameOthers(pre, line, post, Kinds \ {kd})

EnvExplained(pre, line, post) ==
  /\ FrameOthers(pre, line, post, Kinds)

(* ---- extension: the readers (ext.archive.*, conformance class) --------------- *)
(* line.reads = << [kind, at, items << [name, n, loop] >>] >>: a third client    *)
(* read every known object of `kind` through the code's readers after `at`      *)
(* writes of the call (between two ZooKeeper writes of the archiver).           *)
(*   n    = download_batch over every snapshot + live children (for /finished:  *)
(*          the api/state query + /finished children)                           *)
(*   loop = how often AppTraceLoop / ServerTraceLoop handed the event on        *)
(* ext.archive.read     n = what Archive.tla's Read computes in the state after *)
(*                      `at` writes: live + number of snapshots holding it -    *)
(*                      hence never 0, 2 inside the upload -> delete window, 1  *)
(*                      otherwise, +1 per earlier cut that left a copy behind   *)
(* ext.archive.readLoop loop <= n; when the loop listed the history directory   *)
(*                      oldest snapshot first (`ordered`; ZooKeeper guarantees  *)
(*                      no order and the loop drops what is older than the last *)
(*                      event handed on): 1 <= loop, and loop = 1 unless        *)
(*                      another event of the same object carries the same       *)
(*                      timestamp (the de-duplication compares timestamps, then *)
(*                      whole events)                                           *)
ReadClean(line) == /\ \A kd \in Kinds : line.added[kd] = <<>>
                   /\ line.touched = <<>>
ReadNames(pre, kd) == {e.name : e \in pre.kinds[kd].live \cup RowsOf(pre.kinds[kd])}
ReadExp(pre, line, r, nm) ==
  LET kd == r.kind
      P == pre.kinds[kd]
      old == Cardinality({s \in P.snaps : \E x \in s.rows : x.name = nm})
      islive == \E x \in P.live : x.name = nm
  IN IF line.ev = "Archive" /\ kd = line.kind
     THEN LET B == line.batch
              S == SortedEligible(pre, line, kd)
              \* total: a tree that performs more writes than the model's run has
              \* (r.at beyond TotalWrites) must mismatch, not make the evaluation fail
              gone == {S[x].name : x \in 1..Min2(NDeleted(r.at, B), Len(S))}
              new == Cardinality({j \in 1..Min2(NSnaps(r.at, B), NBatches(S, B)) :
                                    \E x \in BatchSet(S, B, j) : x.name = nm})
          IN old + new + (IF islive /\ nm \notin gone THEN 1 ELSE 0)
     ELSE old + (IF islive THEN 1 ELSE 0)
ReadOk(pre, line) ==
  ReadClean(line) =>
    \A y \in DOMAIN line.reads :
       LET r == line.reads[y]
           names == ReadNames(pre, r.kind) IN
       /\ \A nm \in names : \E x \in DOMAIN r.items :
              r.items[x].name = nm /\ r.items[x].n = ReadExp(pre, line, r, nm) /\ r.items[x].n >= 1
       /\ \A x \in DOMAIN r.items : r.items[x].name \in names
ReadLoopOk(pre, line) ==
  ReadClean(line) =>
    \A y \in DOMAIN line.reads :
       LET r == line.reads[y]
           known == pre.kinds[r.kind].live \cup RowsOf(pre.kinds[r.kind]) IN
       \A x \in DOMAIN r.items :
          LET it == r.items[x]
              twin == \E e \in known, f \in known :
                        e.name = it.name /\ f.name # e.name /\ f.inst = e.inst /\ f.ts = e.ts IN
          /\ it.loop <= it.n
          /\ (it.ordered => it.loop >= 1 /\ (~twin => it.loop = 1))
ReadEx(line) ==
  E("ext.read", line.reads # <<>>)
  \cup E("ext.readTwice", \E y \in DOMAIN line.reads : \E x \in DOMAIN line.reads[y].items :
            line.reads[y].items[x].n >= 2)
  \cup E("ext.readMidRun", \E y \in DOMAIN line.reads : line.reads[y].at > 0)

Boundary(pre, line) ==
  line.kind # "server" /\ \E e \in pre.kinds[line.kind].live : e.ts + line.expiry = pre.now

Verdict(pre, line, post) ==
  IF line.ev = "Archive" THEN
    [fail |-> F("C18.lossless", Lossless(pre, line, post))
              \cup F("C18.liveScheduled", LiveScheduled(pre, line, post))
              \cup F("C18.liveYoung", LiveYoung(pre, line, post))
              \cup F("C18.fullBatch", FullBatch(pre, line, post))
              \cup F("drift.step", ArchiveExplained(pre, line, post))
              \cup F("ext.archive.read", ReadOk(pre, line))
              \cup F("ext.archive.readLoop", ReadLoopOk(pre, line)),
     ex |-> ReadEx(line) \cup E("C18", NewSnaps(pre.kinds[line.kind], post.kinds[line.kind]) # {})
            \cup E("cut", line.crashed)
            \cup E("fault", line.fault)       \* a refused write (server error) instead of a crash
            \cup E("boundary", Boundary(pre, line))
            \cup E("scheduledOld", line.kind = "trace" /\ \E e \in pre.kinds["trace"].live :
                     e.inst \in Through(pre, line, post) /\ e.ts + line.expiry < pre.now)
            \cup E("remainder", LET n == Cardinality(MaybeEligible(pre, line, post)) IN
                     n > 0 /\ n % line.batch # 0)
            \cup E("concurrent", line.injected)
            \cup E(line.kind, TRUE)]
  ELSE IF line.ev = "Prune" THEN
    [fail |-> F("C18.pruneNewest", PruneNewest(pre, line, post))
              \cup F("C18.lossless", PruneKeepsRest(pre, line, post))
              \cup F("drift.step", PruneExplained(pre, line, post)),
     ex |-> E("C18", SeqsOf(post.kinds[line.kind]) # SeqsOf(pre.kinds[line.kind]))
            \cup E("prune", SeqsOf(post.kinds[line.kind]) # SeqsOf(pre.kinds[line.kind]))
            \cup E("cut", line.crashed)]
  ELSE
    [fail |-> F("drift.step", EnvExplained(pre, line, post))
              \cup F("ext.archive.read", ReadOk(pre, line))
              \cup F("ext.archive.readLoop", ReadLoopOk(pre, line)),
     ex |-> ReadEx(line)]

Init == /\ t \in DOMAIN Traces
        /\ i = 1
        /\ st = Canon(Traces[t].lines[1].post)

Next == /\ i < Len(Traces[t].lines)
        /\ i' = i + 1
        /\ t' = t
        /\ st' = Canon(Traces[t].lines[i + 1].post)
        /\ LET v == Verdict(st, Traces[t].lines[i + 1], st') IN
           PrintT(ToJson([tid |-> Traces[t].tid, i |-> i, fail |-> v.fail, ex |-> v.ex]))

Spec == Init /\ [][Next]_<<t, i, st>>
=============================================================================
