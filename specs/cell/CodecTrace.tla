---------------------------- MODULE CodecTrace ----------------------------
(* Judges the (value, encoding, decoded) triples harness/codec_driver.py    *)
(* recorded from the REAL encoders and decoders.  Batch (env TRACE_FILE):   *)
(*   [formats |-> << [fmt, items |-> << [v, enc, ok, err, d (, n)] >>] >>]  *)
(* v is the abstract value Codec.tla enumerated, enc the real encoding,     *)
(* ok whether the real decoder returned a value, d that value (abstracted), *)
(* for LDAP n = N(x) and d = N(N(x)) with N = from_entry o to_entry.        *)
(* TOTAL: one verdict per item.  Clauses (C15 statement, nothing stronger): *)
(*  C15.roundtrip  decode(encode(v)) = v   (ldap: N(N(x)) = N(x))           *)
(*  C15.injective  no earlier item of the format with a different value     *)
(*                 (ldap: normal form; uid: seed) has the same encoding     *)
(*  C15.lossless   ldap: every non-empty list x was written with comes back *)
(*                 in N(x) with the same length, a list of atoms with the   *)
(*                 same elements as a multiset (re-ordering allowed, losing *)
(*                 or merging elements not)                                 *)
(*  C15.update     ldapupd (v1 stored, v2 written through the real          *)
(*                 Admin.update / _diff_entries, read back): the decoded    *)
(*                 object is what the set-wise update of the entry decodes  *)
(*                 to (every attribute family the new entry mentions holds  *)
(*                 the new values, the rest is untouched) -- the normal     *)
(*                 form of v2 whenever v2 says something about everything   *)
(*                 v1 has (flag update.full).  Narrowing: where old and new *)
(*                 values of an attribute are the same SET of the same size *)
(*                 (order / multiplicity only) the code's diff calls them   *)
(*                 equal; the old list is accepted there (flag              *)
(*                 update.seteq); pairs whose prescribed entry cannot be    *)
(*                 decoded are not judged (flag update.undecodable)         *)
(*                 ; and a free-form dict attribute (`data`) v2 was written *)
(*                 with -- {} included -- is read back equal (DictsKept);   *)
(*                 the same holds for C15.lossless on (x, N(x))             *)
(*  C15.idLen      a unique name ends in a 13-character id; a generated id  *)
(*                 has 13 characters                                        *)
(*  drift.format   the real encoding is the string Codec.tla's format gives *)
(*                 and Codec.tla's decoder reads it back (name formats)     *)
(* Values that came through JSON are compared by their canonical printed    *)
(* form (ToString), which cannot fail on a type mismatch.                   *)
EXTENDS Codec, TraceLib, Json, IOUtils

Batch == JsonDeserialize(IOEnv.TRACE_FILE)
Recs == Batch.formats
RecOf(f) == CHOOSE r \in SetOf(Recs) : r.fmt = f
Items(f) == RecOf(f).items

Same(a, b) == ToString(a) = ToString(b)

(* the model format behind a recorded format *)
ModelOf(f) == IF f = "evdict" THEN "none" ELSE f
WantOf(f, it) == IF f = "ldap" THEN it.n ELSE it.v
IdentOf(f, it) == IF f = "uid" THEN it.v.uid ELSE IF f = "ldap" THEN it.n ELSE it.v

Fl2(name, holds) == IF holds THEN {} ELSE {name}
Ex(name, cond) == IF cond THEN {name} ELSE {}

Verdict(f, items, j) ==
  LET it == items[j] IN
  [fail |->
     Fl2("C15.roundtrip", f # "ldapupd" => (it.ok /\ Same(it.d, WantOf(f, it))))
     \cup Fl2("C15.update",
              (f = "ldapupd" /\ ~it.undecodable) =>
                 /\ it.ok
                 /\ (Same(it.d, it.want) \/ (it.seteq /\ Same(it.d, it.alt)))
                 /\ DictsKept(it.v.v2, it.d))
     \cup Fl2("C15.injective",
              \A m \in 1..(j - 1) :
                 (f # "ldapupd" /\ items[m].enc = it.enc /\ items[m].ok /\ it.ok)
                   => Same(IdentOf(f, items[m]), IdentOf(f, it)))
     \cup Fl2("C15.idLen", /\ (f = "uniq" => Len(IdOfUnique(it.enc)) = 13)
                           /\ (f = "uid" => Len(it.enc) = 13))
     \cup Fl2("C15.lossless", (f = "ldap" /\ it.ok) => /\ Lossless(it.v.obj, it.n.obj)
                                                     /\ DictsKept(it.v.obj, it.n.obj))
     \cup Fl2("drift.format",
              ModelOf(f) \in NameFormats =>
                 /\ Enc(f, it.v) = it.enc
                 /\ Dec(f, it.v, it.enc) = it.v),
   ex |-> Ex("C15", it.ok)
          \cup (IF f # "ldapupd" THEN {}
                ELSE Ex("update.full", it.full) \cup Ex("update.seteq", it.seteq)
                     \cup Ex("update.undecodable", it.undecodable)
                     \cup Ex("update.changed", it.ok /\ ~Same(it.v.v1, it.v.v2)))]

TraceInit == /\ fmt \in {r.fmt : r \in SetOf(Recs)}
             /\ k = 0

TraceNext == /\ k < Len(Items(fmt))
             /\ k' = k + 1
             /\ fmt' = fmt
             /\ LET v == Verdict(fmt, Items(fmt), k + 1) IN
                PrintT(ToJson([tid |-> fmt, i |-> k + 1, fail |-> v.fail, ex |-> v.ex]))

TraceSpec == TraceInit /\ [][TraceNext]_<<fmt, k>>
=============================================================================
