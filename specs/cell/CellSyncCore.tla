---------------------------- MODULE CellSyncCore ----------------------------
(* Beyond C19 (DESIGN.md section 5, right-hand column): how the accepted     *)
(* reservations reach the scheduler.  cellsync.sync_allocations lists the    *)
(* reservations of ITS cell (admin cell_allocation.list({'cell': cell})),    *)
(* names each one <tenant>/<allocation> (the _id minus the cell), keeps the  *)
(* assignments that have both pattern and priority, and hands the list to    *)
(* masterapi.update_allocations, which writes it to /allocations of the      *)
(* cell's ZooKeeper -- only if the content differs -- and then queues an     *)
(* 'allocations' event for the master.  Quantities travel as the SPELLINGS   *)
(* the reservation was made with; rank (default 100), rank_adjustment,       *)
(* max_utilization, traits, partition and assignments are carried over.      *)
(*                                                                          *)
(* Functions over an extended abstract state  x = [parts, dir, docs, ev]     *)
(*   dir  : id -> [part, traits, q, sp, rank, adj, maxu, asg]                *)
(*          (ReserveCore's reservation + its spelled quantities sp, rank,    *)
(*          optional rank adjustment / max utilisation, assignments as a set *)
(*          of <<pattern, priority>>)                                        *)
(*   docs : cell -> (name -> entry)   the /allocations document of a cell    *)
(*          that has been synchronised at least once; entry = dir record     *)
(*          without q.  The ORDER of the document is the directory's search  *)
(*          order and is left open.                                          *)
(*   ev   : cell -> number of 'allocations' events queued so far            *)
(* Used by CellSync.tla (next-state relation, model checking) and by        *)
(* ReserveTrace.tla (clauses ext.cellsync.* / ext.dir.*: conformance class, *)
(* reported as DRIFT, never as a violation).                                *)
EXTENDS ReserveCore

DefaultRank == 100

CoreRes(dir) == [id \in DOMAIN dir |->
                   [part |-> dir[id].part, traits |-> dir[id].traits, q |-> dir[id].q]]
CoreSt(x) == [parts |-> x.parts, res |-> CoreRes(x.dir)]

(* ---- the directory beyond what admission looks at ---------------------- *)
(* request r additionally carries options (<<>> or <<v>>) rank, adj, maxu    *)
Keep(opt, old, has, dflt) == IF opt # <<>> THEN opt ELSE IF has THEN old ELSE dflt

StoreX(x, id, r) ==
  LET e == Effective(CoreSt(x), id, r)
      has == id \in DOMAIN x.dir
      old == IF has THEN x.dir[id] ELSE [rank |-> DefaultRank, adj |-> <<>>, maxu |-> <<>>, asg |-> {}]
      rec == [part |-> e.part, traits |-> e.traits, q |-> e.q,
              sp |-> [cpu |-> r.cpu, memory |-> r.memory, disk |-> r.disk],
              rank |-> IF r.rank # <<>> THEN r.rank[1] ELSE old.rank,
              adj |-> Keep(r.adj, old.adj, has, <<>>),
              maxu |-> Keep(r.maxu, old.maxu, has, <<>>),
              asg |-> old.asg]
  IN [x EXCEPT !.dir = [j \in DOMAIN x.dir \cup {id} |-> IF j = id THEN rec ELSE x.dir[j]]]

AfterX(x, id, r, out) == IF out = "ok" THEN StoreX(x, id, r) ELSE x

DropX(x, id) == [x EXCEPT !.dir = [j \in DOMAIN x.dir \ {id} |-> x.dir[j]]]

(* assignment.update: set the priority of a pattern, appending it if new;   *)
(* assignment.delete: remove the pattern                                    *)
AssignX(x, id, pat, prio) ==
  [x EXCEPT !.dir[id].asg = {a \in @ : a[1] # pat} \cup {<<pat, prio>>}]
UnassignX(x, id, pat) ==
  [x EXCEPT !.dir[id].asg = {a \in @ : a[1] # pat}]

(* ---- synchronisation --------------------------------------------------- *)
EntryOf(d) == [part |-> d.part, traits |-> d.traits, sp |-> d.sp, rank |-> d.rank,
               adj |-> d.adj, maxu |-> d.maxu, asg |-> d.asg]

IdsOfCell(x, c) == {id \in DOMAIN x.dir : id.cell = c}

Doc(x, c) == [n \in {id.alloc : id \in IdsOfCell(x, c)} |->
                EntryOf(x.dir[[alloc |-> n, cell |-> c]])]

SyncChanges(x, c) == c \notin DOMAIN x.docs \/ x.docs[c] # Doc(x, c)

SyncX(x, c) ==
  LET cs == DOMAIN x.docs \cup {c}
      bump == IF SyncChanges(x, c) THEN 1 ELSE 0
  IN [x EXCEPT !.docs = [k \in cs |-> IF k = c THEN Doc(x, c) ELSE x.docs[k]],
               !.ev = [k \in cs |-> IF k = c THEN (IF c \in DOMAIN x.ev THEN x.ev[c] ELSE 0) + bump
                                    ELSE x.ev[k]]]

(* ---- what can be said about the documents ------------------------------ *)
(* the documents read as a reservation table: what the scheduler is told    *)
DocIds(x) == UNION {{[alloc |-> n, cell |-> c] : n \in DOMAIN x.docs[c]} : c \in DOMAIN x.docs}
DocAsState(x) ==
  [parts |-> x.parts,
   res |-> [id \in DocIds(x) |->
              LET e == x.docs[id.cell][id.alloc]
              IN [part |-> e.part, traits |-> e.traits, q |-> ValOf(e.sp)]]]

(* a document -- fresh or stale -- never promises more than a partition has *)
(* or a trait limit allows: C19 carried through to the scheduler, through   *)
(* the spellings                                                            *)
DocWithinCapacity(x) == InvC19(DocAsState(x))

(* a freshly synchronised cell: one entry per reservation of the cell,      *)
(* none for other cells, every field the directory's                        *)
FreshOk(x, c) == c \in DOMAIN x.docs /\ x.docs[c] = Doc(x, c)

(* the spellings in a fresh document mean what admission counted            *)
FreshUnitsOk(x, c) ==
  \A id \in IdsOfCell(x, c) : ValOf(x.docs[c][id.alloc].sp) = x.dir[id].q
=============================================================================
