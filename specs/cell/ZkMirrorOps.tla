---------------------------- MODULE ZkMirrorOps ----------------------------
(* Beyond the listed properties: treadmill.zksync.zk2fs.Zk2Fs, the mirror   *)
(* of a ZooKeeper directory in the file system that the state API, the      *)
(* websocket service and discovery read (sproc/zk2fs.py: /servers,          *)
(* /running, /scheduled, /placement/<server>, /endpoints/<proid>, ...).     *)
(* One directory (sync_children(path, watch_data=WatchData)), its children  *)
(* Keys with data 1..MaxVal (0 = no node / no file).                        *)
(*                                                                          *)
(* What makes it more than a copy loop is WATCH LATENCY: ZooKeeper watches  *)
(* are one-shot, a notification carries no data, and the callback reads the *)
(* store when it RUNS, not when the watch fired.  A kazoo client delivers   *)
(* its notifications in the order they fired (one queue, q).                *)
(*  - the children watch (kazoo ChildrenWatch) is armed by get_children and *)
(*    fires once on the next create/delete of a child (carmed);             *)
(*  - every watched node has an ExistingDataWatch object <<k, n>> (zkwatchers*)
(*    .py): armed by get(path, watch), fires once on set/delete; its        *)
(*    callback writes the file only if mzxid differs from the last one seen,*)
(*    and on DELETED / NoNode removes the file, forgets the node and stops. *)
(* All steps are pure successor functions so that the trace specification   *)
(* can re-compute every recorded step of the real class.                    *)
EXTENDS Naturals, Sequences, FiniteSets

CONSTANTS Keys, MaxVal

Exists(st, k) == st.zk[k].val # 0
HasFile(st, k) == st.fs[k] # 0

ArmedOn(st, k) == {w \in st.ws : w.k = k /\ w.armed}

(* the armed watchers of k fire, oldest registration first *)
RECURSIVE NotesOf(_, _)
NotesOf(ws, del) ==
  IF ws = {} THEN <<>>
  ELSE LET w == CHOOSE x \in ws : \A y \in ws : x.n <= y.n
       IN <<[kind |-> "data", k |-> w.k, n |-> w.n, del |-> del]>> \o NotesOf(ws \ {w}, del)

Disarm(st, k) == {IF w.k = k THEN [w EXCEPT !.armed = FALSE] ELSE w : w \in st.ws}

ChildNote == <<[kind |-> "child", k |-> "", n |-> 0, del |-> FALSE]>>

(* ---- environment (any other ZooKeeper client) ---- *)
CanCreate(st, k) == ~Exists(st, k)
DoCreate(st, k, v) ==
  [st EXCEPT !.zx = @ + 1,
             !.zk[k] = [val |-> v, mz |-> st.zx + 1],
             !.q = IF st.carmed THEN @ \o ChildNote ELSE @,
             !.carmed = FALSE]

CanSet(st, k) == Exists(st, k)
DoSet(st, k, v) ==
  [st EXCEPT !.zx = @ + 1,
             !.zk[k] = [val |-> v, mz |-> st.zx + 1],
             !.q = @ \o NotesOf(ArmedOn(st, k), FALSE),
             !.ws = Disarm(st, k)]

CanDelete(st, k) == Exists(st, k)
DoDelete(st, k) ==      \* ZooKeeper triggers the node's data watches, then the parent's child watch
  [st EXCEPT !.zx = @ + 1,
             !.zk[k] = [val |-> 0, mz |-> 0],
             !.q = (@ \o NotesOf(ArmedOn(st, k), TRUE)) \o (IF st.carmed THEN ChildNote ELSE <<>>),
             !.ws = Disarm(st, k),
             !.carmed = FALSE]

(* ---- Zk2Fs._children_watch, run by the ChildrenWatch callback ---- *)
Removed(st) == {k \in Keys : HasFile(st, k) /\ ~Exists(st, k)}
Common(st)  == {k \in Keys : HasFile(st, k) /\ Exists(st, k)}
Added(st)   == {k \in Keys : ~HasFile(st, k) /\ Exists(st, k)}
Synced(st)  == Added(st) \cup (IF st.once THEN {} ELSE Common(st))

ChildrenRun(st, wd) ==
  LET sy == Synced(st) IN
  [st EXCEPT !.carmed = TRUE,      \* get_children re-arms the watch before the callback runs
             !.once = TRUE,
             !.watches = (@ \ Removed(st)) \cup (IF wd THEN sy ELSE {}),
             !.fs = [k \in Keys |-> IF k \in Removed(st) THEN 0
                                    ELSE IF k \in sy THEN st.zk[k].val ELSE @[k]],
             !.gen = [k \in Keys |-> IF wd /\ k \in sy THEN @[k] + 1 ELSE @[k]],
             \* sync_data: a node in self.watches gets a new ExistingDataWatch (first call: get + arm + write)
             !.ws = @ \cup (IF wd THEN {[k |-> k, n |-> st.gen[k] + 1, ver |-> st.zk[k].mz, armed |-> TRUE] : k \in sy}
                            ELSE {})]

(* ---- ExistingDataWatch._get_data(event) + Zk2Fs._data_watch ---- *)
DataRun(st, note) ==
  LET live == {w \in st.ws : w.k = note.k /\ w.n = note.n} IN
  IF live = {} THEN st          \* a stopped watch ignores late notifications
  ELSE LET w == CHOOSE x \in live : TRUE
           k == w.k IN
       IF note.del \/ ~Exists(st, k)
       THEN [st EXCEPT !.ws = @ \ {w}, !.watches = @ \ {k}, !.fs[k] = 0]
       ELSE [st EXCEPT !.ws = (@ \ {w}) \cup {[w EXCEPT !.armed = TRUE, !.ver = st.zk[k].mz]},
                       !.fs[k] = IF st.zk[k].mz # w.ver THEN st.zk[k].val ELSE @]

CanDeliver(st) == st.up /\ st.q # <<>>
DoDeliver(st, wd) ==
  LET note == Head(st.q)
      s1 == [st EXCEPT !.q = Tail(@)] IN
  IF note.kind = "child" THEN ChildrenRun(s1, wd) ELSE DataRun(s1, note)

(* ---- process life ---- *)
CanStop(st) == st.up
DoStop(st) == [st EXCEPT !.up = FALSE, !.q = <<>>, !.ws = {}, !.carmed = FALSE, !.watches = {}]

CanStart(st) == ~st.up
DoStart(st, wd) ==     \* a new Zk2Fs on the old directory: sync_children -> first ChildrenWatch call
  ChildrenRun([st EXCEPT !.up = TRUE, !.once = FALSE], wd)

Init0 ==
  [zk |-> [k \in Keys |-> [val |-> 0, mz |-> 0]], zx |-> 0,
   fs |-> [k \in Keys |-> 0], q |-> <<>>, carmed |-> TRUE, once |-> TRUE,
   ws |-> {}, gen |-> [k \in Keys |-> 0], watches |-> {}, up |-> TRUE]

(* what an observer of the real object sees *)
Proj(st) == [zk |-> [k \in Keys |-> st.zk[k].val], fs |-> st.fs, watches |-> st.watches,
             qlen |-> Len(st.q)]
=============================================================================
