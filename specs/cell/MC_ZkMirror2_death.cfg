SPECIFICATION Spec
CONSTANTS
  Srv = {"s1", "s2"}
  Ins = {"i1"}
  MaxVal = 2
  InnerWD = FALSE
  MaxEnv = 6
  MaxLife = 1
INVARIANTS InvNoDeath
CHECK_DEADLOCK FALSE
