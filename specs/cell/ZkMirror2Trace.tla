---------------------------- MODULE ZkMirror2Trace ----------------------------
(* Recorded executions of the real Zk2Fs with the real /placement callbacks of *)
(* sproc/zk2fs.py (harness/zkmirror_driver.py, class Mirror2) against          *)
(* ZkMirror2Ops: every step re-computed, hidden state carried by the spec.     *)
(*   ext.zk2fs2.step   observed projection # Proj(Do(pre, event))               *)
(*   ext.zk2fs2.dirs   settled and a directory exists for a server that does not *)
(* flags: settled, death (the callback killed the process), stale (settled, a   *)
(* file for an instance that does not exist), unmirrored (settled, an existing  *)
(* instance without a file).  Conformance class DRIFT (exit 0).                 *)
EXTENDS ZkMirror2Ops, TraceLib, Json, IOUtils

Batch == JsonDeserialize(IOEnv.TRACE_FILE)
Traces == Batch.traces
VARIABLES t, i, st

Apply(s, line) ==
  CASE line.ev = "CreateServer" -> DoCreateServer(s, line.s)
    [] line.ev = "DeleteServer" -> DoDeleteServer(s, line.s)
    [] line.ev = "CreateInst"   -> DoCreateInst(s, line.s, line.i, line.v)
    [] line.ev = "SetInst"      -> DoSetInst(s, line.s, line.i, line.v)
    [] line.ev = "DeleteInst"   -> DoDeleteInst(s, line.s, line.i)
    [] line.ev = "Deliver"      -> IF CanDeliver(s) THEN DoDeliver(s) ELSE s
    [] line.ev = "Stop"         -> DoStop(s)
    [] line.ev = "Start"        -> DoStart(s)
    [] OTHER -> s

Obs(post) == [zs |-> [s \in Srv |-> post.zs[s]], zi |-> [s \in Srv |-> [x \in Ins |-> post.zi[s][x]]],
              fd |-> [s \in Srv |-> post.fd[s]], ff |-> [s \in Srv |-> [x \in Ins |-> post.ff[s][x]]],
              qlen |-> post.qlen, up |-> post.up]
F(name, ok) == IF ok THEN {} ELSE {name}
E(name, on) == IF on THEN {name} ELSE {}

Init == t \in DOMAIN Traces /\ i = 1 /\ st = Init0
Next == /\ i < Len(Traces[t].lines)
        /\ i' = i + 1 /\ t' = t
        /\ LET line == Traces[t].lines[i + 1]
               nx == Apply(st, line)
               o == Obs(line.post)
               settled == o.up /\ o.qlen = 0
           IN /\ st' = nx
              /\ PrintT(ToJson([tid |-> Traces[t].tid, i |-> i,
                   fail |-> F("ext.zk2fs2.step", Proj(nx) = o)
                            \cup F("ext.zk2fs2.dirs", settled => \A s \in Srv : o.fd[s] => o.zs[s]),
                   ex |-> E("settled", settled)
                          \cup E("death", st.up /\ ~o.up /\ line.ev = "Deliver")
                          \cup E("stale", settled /\ \E s \in Srv, x \in Ins : o.ff[s][x] # 0 /\ o.zi[s][x] = 0)
                          \cup E("outdated", settled /\ InnerWD /\ \E s \in Srv, x \in Ins : o.ff[s][x] # 0 /\ o.zi[s][x] # 0 /\ o.ff[s][x] # o.zi[s][x])
                          \cup E("unmirrored", settled /\ \E s \in Srv, x \in Ins : o.zi[s][x] # 0 /\ o.ff[s][x] = 0)]))
Spec == Init /\ [][Next]_<<t, i, st>>
=============================================================================
