------------------------------ MODULE Archive ------------------------------
(* C18 - archiving trace history never loses or prematurely archives events. *)
(*                                                                          *)
(* Model of treadmill.trace.app.zk.cleanup_trace / cleanup_finished,        *)
(* trace.server.zk.cleanup_server_trace, _zk.upload_batch and _zk.cleanup   *)
(* at the granularity of single ZooKeeper calls, with the archiver process  *)
(* crashing anywhere and the rest of the cell (events being published,      *)
(* instances being scheduled / finishing, the clock) running concurrently.  *)
(*                                                                          *)
(* The population is built by Seed actions (so that it shows in TLC's       *)
(* action labels and can be replayed on the real code), then:               *)
(*   StartRun      snapshot of /scheduled (cleanup_trace: first statement)  *)
(*   ListShard(s)  get_children of one shard; eligibility is decided here,  *)
(*                 with the clock value of that moment                      *)
(*   SelectBatch   next full batch (oldest first; listing order for          *)
(*                 /finished) or EndRun when fewer than Batch remain        *)
(*   Upload        ONE sequential snapshot node, created BEFORE the deletes *)
(*   Delete        one node at a time                                       *)
(*   Crash         anywhere: the volatile part of the state is dropped      *)
(*   PruneStart(m) / PruneDelete   _zk.cleanup(path, m)                     *)
(*   AddEvent, Schedule, Unschedule, Tick   the environment                 *)
(* Defects (a set of strings) switches in the mutants used to show that the *)
(* invariants bite: "delete_first", "le_expiry", "short_batch",             *)
(* "ignore_scheduled", "finished_is_done" (an instance with a /finished       *)
(* record is taken to be unscheduled), "prune_newest", "prune_negative_slice". *)
EXTENDS ArchiveOps, TLC

CONSTANTS
  Mode,          \* "trace" | "finished" | "server"
  Shards,        \* set of shard numbers
  InstSeq,       \* sequence of instance names that may be scheduled at the start
  NewInsts,      \* instance names created later (Schedule), never in InstSeq
  InitIds,       \* ids (1..n) of the initial events
  SpareIds,      \* ids of events that may be published later
  EvInst,        \* id -> instance name
  EvShard,       \* id -> shard
  TsOf,          \* id -> set of timestamps the initial event may carry
  SchedOf,       \* index in InstSeq -> subset of BOOLEAN (scheduled at start?)
  Now0, Expiry, Batch,
  Maxes,         \* set of `max_count` values for Prune
  Ticks,         \* set of clock increments
  MaxEnv, MaxCrash, MaxRuns, MaxPrunes, Pad,
  MaxReads,      \* extension (readers): number of Read actions per behaviour
  SplitRead,     \* BOOLEAN: FALSE = a reader call is atomic (issued between two
                 \* ZooKeeper writes of the archiver); TRUE = snapshots first, live
                 \* nodes later, as AppTraceLoop.run does - exposes the race (NOTES)
  TickInListing, \* BOOLEAN: may the clock advance between the /scheduled
                 \* snapshot and the end of the listing (see NOTES: a run is
                 \* assumed to be shorter than the expiry)
  Defects

VARIABLE st
vars == <<st>>

Ev(id, ts) == [k |-> id, inst |-> EvInst[id], sh |-> EvShard[id], ts |-> ts]
Le == "le_expiry" \in Defects

Volatile == [pc |-> "idle", ssnap |-> {}, tolist |-> {}, cand |-> {}, rem |-> {},
             cur |-> {}, pend |-> <<>>, up |-> FALSE, pvict |-> <<>>]
Reset(s) == [x \in DOMAIN s |-> IF x \in DOMAIN Volatile THEN Volatile[x] ELSE s[x]]

Seqs(snaps) == {s.seq : s \in snaps}
NInst == Len(InstSeq)
AllInsts == {InstSeq[j] : j \in 1..Len(InstSeq)} \cup NewInsts
NInit == Cardinality(InitIds)

(* extension (readers): ghost of the last read *)
NoRead == [inst |-> "-", cnt |-> <<>>, ncrash |-> 0, window |-> {}, gone |-> {}]

Init == st = [now |-> Now0, live |-> {}, known |-> {}, sched |-> {}, eversched |-> {},
              snaps |-> {}, nextseq |-> 0, pruned |-> {}, pbefore |-> {}, pmax |-> 0,
              pruneok |-> TRUE, seeded |-> 0, nenv |-> 0, ncrash |-> 0, nruns |-> 0,
              nprunes |-> 0, pad |-> 0, nreads |-> 0, rd |-> NoRead, rpart |-> NoRead,
              fin |-> {}]      \* instances with a /finished record (trace mode)
            @@ [Volatile EXCEPT !.pc = "setup"]

(* ---- population ---------------------------------------------------------- *)
SeedInst(j, b) ==
  /\ st.pc = "setup" /\ st.seeded = j - 1 /\ j <= NInst /\ b \in SchedOf[j]
  /\ st' = [st EXCEPT !.seeded = j,
                      !.sched = IF b THEN @ \cup {InstSeq[j]} ELSE @,
                      !.eversched = @ \cup {InstSeq[j]}]

Seed(id, ts) ==
  /\ st.pc = "setup" /\ st.seeded = NInst + id - 1 /\ id \in InitIds /\ ts \in TsOf[id]
  /\ st' = [st EXCEPT !.seeded = @ + 1,
                      !.live = @ \cup {Ev(id, ts)}, !.known = @ \cup {Ev(id, ts)},
                      !.pc = IF id = NInit THEN "idle" ELSE "setup"]

(* ---- the archiver --------------------------------------------------------- *)
StartRun ==
  /\ st.pc = "idle" /\ st.nruns < MaxRuns
  /\ st' = [st EXCEPT !.pc = "listing", !.tolist = Shards, !.cand = {}, !.nruns = @ + 1,
                      !.ssnap = IF "ignore_scheduled" \in Defects THEN {}
                                ELSE IF "finished_is_done" \in Defects THEN st.sched \ st.fin
                                ELSE st.sched]

ListShard(s) ==
  /\ st.pc = "listing" /\ s \in st.tolist
  /\ LET found == {e \in st.live : e.sh = s /\ Eligible(Mode, e, st.ssnap, st.now, Expiry, Le)}
         c1 == st.cand \cup found
     IN st' = IF st.tolist = {s}
              THEN [st EXCEPT !.tolist = {}, !.cand = {}, !.rem = c1, !.pc = "batching"]
              ELSE [st EXCEPT !.tolist = @ \ {s}, !.cand = c1]

Enough == IF "short_batch" \in Defects THEN st.rem # {} ELSE Cardinality(st.rem) >= Batch
BatchSize == IF Cardinality(st.rem) >= Batch THEN Batch ELSE Cardinality(st.rem)

(* the next full batch in the order of the code: (timestamp, shard, name) for *)
(* traces; the listing order for /finished - ids are that order, and since   *)
(* TsOf ranges over all timestamp assignments every relation between listing *)
(* order and age is covered                                                  *)
SelectBatch ==
  /\ st.pc = "batching" /\ Enough
  /\ LET b == Oldest(Mode, st.rem, BatchSize) IN
     st' = IF "delete_first" \in Defects
           THEN [st EXCEPT !.cur = b, !.pc = "deleting", !.pend = OrderSeq(Mode, b), !.up = FALSE]
           ELSE [st EXCEPT !.cur = b, !.pc = "uploading", !.up = FALSE]

EndRun ==
  /\ st.pc = "batching" /\ ~Enough
  /\ st' = Reset(st)

AfterBatch(s) ==
  IF Mode = "server"
  THEN [s EXCEPT !.rem = {}, !.cur = {}, !.up = FALSE, !.pend = <<>>,
                 !.pc = "listing", !.tolist = Shards, !.cand = {}]
  ELSE [s EXCEPT !.rem = @ \ s.cur, !.cur = {}, !.up = FALSE, !.pend = <<>>, !.pc = "batching"]

Upload ==
  /\ st.pc = "uploading"
  /\ LET s1 == [st EXCEPT !.snaps = @ \cup {[seq |-> st.nextseq, evs |-> st.cur]},
                          !.nextseq = @ + 1, !.up = TRUE]
     IN st' = IF "delete_first" \in Defects
              THEN AfterBatch(s1)
              ELSE [s1 EXCEPT !.pc = "deleting", !.pend = OrderSeq(Mode, st.cur)]

Delete ==
  /\ st.pc = "deleting" /\ st.pend # <<>>
  /\ LET s1 == [st EXCEPT !.live = @ \ {Head(st.pend)}, !.pend = Tail(@)]
     IN st' = IF Tail(st.pend) # <<>> THEN s1
              ELSE IF st.up THEN AfterBatch(s1)
              ELSE [s1 EXCEPT !.pc = "uploading"]

Crash ==
  /\ st.pc \notin {"idle", "setup"} /\ st.ncrash < MaxCrash
  /\ st' = [Reset(st) EXCEPT !.ncrash = @ + 1]

(* _zk.cleanup(path, m): exactly the max(0, len - m) OLDEST snapshots go; with  *)
(* len <= m nothing is touched.  Mutant "prune_negative_slice": the guard is     *)
(* folded into nodes[:len - m], whose negative bound (len < m < 2*len) slices    *)
(* from the end and removes the 2*len - m oldest.                                *)
PruneExtra(n, m) ==
  IF n > m THEN n - m
  ELSE IF "prune_negative_slice" \in Defects /\ n < m /\ 2 * n > m THEN 2 * n - m
  ELSE 0

PruneStart(m) ==
  /\ st.pc = "idle" /\ m \in Maxes /\ st.nprunes < MaxPrunes
  /\ PruneExtra(Cardinality(st.snaps), m) > 0
  /\ LET seqs == Seqs(st.snaps)
         extra == PruneExtra(Cardinality(seqs), m)
         victims == IF "prune_newest" \in Defects
                    THEN BottomSeq(TopN(seqs, extra), extra)
                    ELSE BottomSeq(seqs, extra)
     IN st' = [st EXCEPT !.pc = "pruning", !.pvict = victims, !.pbefore = seqs, !.pmax = m,
                         !.nprunes = @ + 1]

PruneDelete ==
  /\ st.pc = "pruning" /\ st.pvict # <<>>
  /\ LET v == CHOOSE s \in st.snaps : s.seq = Head(st.pvict)
         s1 == [st EXCEPT !.snaps = @ \ {v}, !.pruned = @ \cup {v}, !.pvict = Tail(@)]
     IN st' = IF Tail(st.pvict) # <<>> THEN s1
              ELSE [Reset(s1) EXCEPT !.pruneok = (Seqs(s1.snaps) = TopN(st.pbefore, st.pmax))]

(* ---- the environment ------------------------------------------------------- *)
EnvOk == st.pc # "setup" /\ st.nenv < MaxEnv

AddEvent(id) ==
  /\ EnvOk /\ id \in SpareIds /\ ~(\E e \in st.known : e.k = id)
  /\ (EvInst[id] \in NewInsts => EvInst[id] \in st.eversched)
  /\ st' = [st EXCEPT !.live = @ \cup {Ev(id, st.now)}, !.known = @ \cup {Ev(id, st.now)},
                      !.nenv = @ + 1]

(* a brand-new instance: its /scheduled node exists before its first event *)
Schedule(i) ==
  /\ EnvOk /\ Mode = "trace" /\ i \in NewInsts \ st.eversched
  /\ st' = [st EXCEPT !.sched = @ \cup {i}, !.eversched = @ \cup {i}, !.nenv = @ + 1]

Unschedule(i) ==
  /\ EnvOk /\ Mode = "trace" /\ i \in st.sched
  /\ st' = [st EXCEPT !.sched = @ \ {i}, !.fin = @ \cup {i}, !.nenv = @ + 1]

(* a server that no longer owns the placement publishes a stale terminal event: *)
(* publish() writes /finished/<i> but leaves /scheduled/<i> alone (the instance *)
(* runs elsewhere) - finished AND scheduled is a legal state, and the instance   *)
(* counts as live for the archiver                                               *)
StaleFinish(i) ==
  /\ EnvOk /\ Mode = "trace" /\ i \in st.sched /\ i \notin st.fin
  /\ st' = [st EXCEPT !.fin = @ \cup {i}, !.nenv = @ + 1]

Tick(d) ==
  /\ EnvOk /\ d \in Ticks /\ (st.pc # "listing" \/ TickInListing)
  /\ st' = [st EXCEPT !.now = @ + d, !.nenv = @ + 1]

(* ---- extension: the readers ------------------------------------------------ *)
(* download_batch over every snapshot + the live children (trace, server);     *)
(* the finished-history query + the /finished children.  cnt[e] = how often    *)
(* the reader is handed event e.                                               *)
ReadObjs == {EvInst[id] : id \in InitIds \cup SpareIds}
InSnaps(e) == Cardinality({s \in st.snaps : e \in s.evs})
EvsOf(i) == {e \in st.known : e.inst = i}
(* uploaded and not yet deleted: the upload -> delete window of the current batch *)
Window == IF st.pc = "deleting" /\ st.up THEN {st.pend[x] : x \in DOMAIN st.pend} ELSE {}

(* events whose only snapshots were removed by Prune (its purpose) *)
GoneOf(i) == {e \in EvsOf(i) : e \notin st.live /\ InSnaps(e) = 0
                               /\ \E s \in st.pruned : e \in s.evs}

Read(i) ==
  /\ ~SplitRead /\ st.pc # "setup" /\ st.nreads < MaxReads /\ i \in ReadObjs
  /\ st' = [st EXCEPT !.nreads = @ + 1,
                      !.rd = [inst |-> i, ncrash |-> st.ncrash, window |-> Window,
                              cnt |-> [e \in EvsOf(i) |-> InSnaps(e) + (IF e \in st.live THEN 1 ELSE 0)],
                              gone |-> GoneOf(i)]]

ReadHist(i) ==
  /\ SplitRead /\ st.pc # "setup" /\ st.nreads < MaxReads /\ i \in ReadObjs
  /\ st.rpart.inst = "-"
  /\ st' = [st EXCEPT !.nreads = @ + 1,
                      !.rpart = [NoRead EXCEPT !.inst = i, !.cnt = [e \in EvsOf(i) |-> InSnaps(e)]]]

ReadLive ==
  /\ st.rpart.inst # "-"
  /\ LET i == st.rpart.inst
         h(e) == IF e \in DOMAIN st.rpart.cnt THEN st.rpart.cnt[e] ELSE 0 IN
     st' = [st EXCEPT !.rpart = NoRead,
                      !.rd = [inst |-> i, ncrash |-> st.ncrash, window |-> Window,
                              cnt |-> [e \in EvsOf(i) |-> h(e) + (IF e \in st.live THEN 1 ELSE 0)],
                              gone |-> GoneOf(i)]]

(* filler so that bounded behaviours reach the simulation depth *)
Idle ==
  /\ st.pc = "idle" /\ st.pad < Pad /\ st.nruns = MaxRuns
  /\ st' = [st EXCEPT !.pad = @ + 1]

Next ==
  \/ \E j \in 1..NInst, b \in BOOLEAN : SeedInst(j, b)
  \/ \E id \in InitIds, ts \in UNION {TsOf[x] : x \in InitIds} : Seed(id, ts)
  \/ StartRun
  \/ \E s \in Shards : ListShard(s)
  \/ SelectBatch
  \/ EndRun
  \/ Upload
  \/ Delete
  \/ Crash
  \/ \E m \in Maxes : PruneStart(m)
  \/ PruneDelete
  \/ \E id \in SpareIds : AddEvent(id)
  \/ \E i \in NewInsts : Schedule(i)
  \/ \E i \in AllInsts : Unschedule(i)
  \/ \E i \in AllInsts : StaleFinish(i)
  \/ \E d \in Ticks : Tick(d)
  \/ Idle
  \/ \E i \in ReadObjs : Read(i)
  \/ \E i \in ReadObjs : ReadHist(i)
  \/ ReadLive

Spec == Init /\ [][Next]_vars

-----------------------------------------------------------------------------
(* C18, as state invariants: they hold in EVERY reachable state, i.e. after  *)
(* any crash cut of the upload-then-delete sequence.                         *)
Archived == UNION {s.evs : s \in st.snaps \cup st.pruned}

(* every event that ever existed is still live or in a snapshot (snapshots   *)
(* removed by Prune are remembered in the ghost `pruned`: dropping them is    *)
(* Prune's purpose and is judged by InvPruneNewest)                           *)
InvLossless == \A e \in st.known : e \in st.live \/ e \in Archived

InvLiveScheduled == Mode = "trace" => \A e \in st.known : e.inst \in st.sched => e \in st.live

(* the statement: an event YOUNGER than the expiry (age < Expiry) is live   *)
InvLiveYoung == Mode # "server" => \A e \in st.known \ st.live : e.ts + Expiry <= st.now
(* what the code does (`timestamp < time.time() - expires_after`): the event *)
(* whose age equals the expiry stays live as well.  Conformance of the model *)
(* to the code, checked on traces as drift.step; the "le_expiry" mutant      *)
(* violates this one only.                                                   *)
InvLiveYoungCode == Mode # "server" => \A e \in st.known \ st.live : e.ts + Expiry < st.now

(* only full batches leave: every snapshot holds exactly Batch events (a     *)
(* short remainder therefore never produces a snapshot, and by InvLossless    *)
(* nothing leaves without a snapshot)                                         *)
InvFullBatch == \A s \in st.snaps \cup st.pruned : Cardinality(s.evs) = Batch

InvPruneNewest ==
  /\ st.pruneok
  /\ \A p \in st.pruned, s \in st.snaps : p.seq < s.seq
  /\ (st.pc = "pruning" => TopN(st.pbefore, st.pmax) \subseteq Seqs(st.snaps))

(* Extension beyond C18: what a reader issued at ANY point of an archiving run  *)
(* (between any two writes) is handed.  Never zero times (events whose only    *)
(* snapshot was pruned excepted); without a crash exactly once, and exactly    *)
(* twice inside the upload -> delete window of the batch being moved (the      *)
(* snapshot is created before the nodes are deleted: duplicates instead of     *)
(* gaps); every crash of the archiver can leave one more copy behind (the      *)
(* restarted run uploads the not yet deleted part of the batch again), for     *)
(* good - the raw readers do not de-duplicate, AppTraceLoop does (NOTES).      *)
InvReadNeverZero ==
  st.rd.inst # "-" => \A e \in DOMAIN st.rd.cnt : e \in st.rd.gone \/ st.rd.cnt[e] >= 1
InvReadWindow ==
  st.rd.inst # "-" /\ st.rd.ncrash = 0 =>
    \A e \in DOMAIN st.rd.cnt \ st.rd.gone : st.rd.cnt[e] = (IF e \in st.rd.window THEN 2 ELSE 1)
InvReadBound ==
  st.rd.inst # "-" => \A e \in DOMAIN st.rd.cnt : st.rd.cnt[e] <= 2 + st.rd.ncrash

TypeOK == st.pc \in {"setup", "idle", "listing", "batching", "uploading", "deleting", "pruning"}
=============================================================================
