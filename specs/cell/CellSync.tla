------------------------------ MODULE CellSync ------------------------------
(* Reservation requests, assignments and cellsync.sync_allocations as one   *)
(* next-state relation (CellSyncCore's functions; admission is              *)
(* ReserveCore's Outcome, unchanged).  From the empty directory and no      *)
(* documents: Create / Update / Delete of reservations, Assign / Unassign   *)
(* of application patterns, Sync(cell) at any moment.                       *)
(*                                                                          *)
(* Invariants (model level):                                                *)
(*  InvFresh        a cell synchronised since its last directory change has *)
(*                  exactly one entry per reservation of the cell, none for *)
(*                  other cells, every field equal to the directory's (so a *)
(*                  deleted reservation is gone after the next Sync)        *)
(*  InvFreshUnits   the spellings in such a document mean the quantities    *)
(*                  admission counted                                       *)
(*  InvDocCapacity  ANY document, fresh or stale, stays within partition    *)
(*                  capacity and trait limits                               *)
(*  InvIdempotent   Sync of a fresh cell changes nothing and queues no      *)
(*                  event                                                   *)
(*  InvEvents       events are queued only by a Sync that changed the       *)
(*                  document (never more events than Syncs)                 *)
EXTENDS CellSyncCore

CONSTANTS
  Ids, Cells, PartTable, PartNames, TraitSets, Quantities,
  Ranks, Adjs, Maxus,       \* sets of options (<<>> or <<v>>)
  Patterns, Prios,
  MaxSteps

VARIABLES x, fresh, last, nsync, n

vars == <<x, fresh, last, nsync, n>>

Budget == MaxSteps < 0 \/ n < MaxSteps
Tick == IF MaxSteps < 0 THEN n ELSE n + 1

PartVal(p) == [cap |-> ValOf(p.cap),
               limits |-> [t \in DOMAIN p.limits |-> ValOf(p.limits[t])]]

Req(part, tg, traits, qq, rk, ad, mu) ==
  [part |-> part, tg |-> tg, traits |-> traits,
   cpu |-> qq.cpu, memory |-> qq.memory, disk |-> qq.disk,
   rank |-> rk, adj |-> ad, maxu |-> mu]
Reqs == {Req(p, FALSE, {}, qq, rk, ad, mu) :
           p \in PartNames, qq \in Quantities, rk \in Ranks, ad \in Adjs, mu \in Maxus}
        \cup {Req(p, TRUE, ts, qq, rk, ad, mu) :
           p \in PartNames, ts \in TraitSets, qq \in Quantities, rk \in Ranks, ad \in Adjs, mu \in Maxus}

Empty == [z \in {} |-> 0]

Init == /\ x = [parts |-> [k \in DOMAIN PartTable |-> PartVal(PartTable[k])],
                dir |-> Empty, docs |-> Empty, ev |-> Empty]
        /\ fresh = {}
        /\ last = "other"
        /\ nsync = 0
        /\ n = 0

Touch(id) == /\ fresh' = fresh \ {id.cell}
             /\ last' = "other"
             /\ nsync' = nsync
             /\ n' = Tick

Submit(id, r) ==
  LET out == Outcome(CoreSt(x), id, r) IN
  /\ x' = AfterX(x, id, r, out)
  /\ IF out = "ok" THEN Touch(id)
     ELSE fresh' = fresh /\ last' = "other" /\ nsync' = nsync /\ n' = Tick

Create(id, r) == Budget /\ id \notin DOMAIN x.dir /\ Submit(id, r)
Update(id, r) == Budget /\ id \in DOMAIN x.dir /\ (r.tg => r.traits # {}) /\ Submit(id, r)
Delete(id) == Budget /\ id \in DOMAIN x.dir /\ x' = DropX(x, id) /\ Touch(id)
Assign(id, pat, prio) ==
  Budget /\ id \in DOMAIN x.dir /\ x' = AssignX(x, id, pat, prio) /\ Touch(id)
Unassign(id, pat) ==
  /\ Budget /\ id \in DOMAIN x.dir /\ \E a \in x.dir[id].asg : a[1] = pat
  /\ x' = UnassignX(x, id, pat) /\ Touch(id)

Sync(c) ==
  /\ Budget
  /\ x' = SyncX(x, c)
  /\ fresh' = fresh \cup {c}
  /\ last' = IF c \in fresh THEN (IF x' = x THEN "sync_fresh_noop" ELSE "sync_fresh_changed")
             ELSE "other"
  /\ nsync' = nsync + 1
  /\ n' = Tick

Next == \/ \E id \in Ids, r \in Reqs : Create(id, r)
        \/ \E id \in Ids, r \in Reqs : Update(id, r)
        \/ \E id \in Ids : Delete(id)
        \/ \E id \in Ids, pat \in Patterns, prio \in Prios : Assign(id, pat, prio)
        \/ \E id \in Ids, pat \in Patterns : Unassign(id, pat)
        \/ \E c \in Cells : Sync(c)

Spec == Init /\ [][Next]_vars

-----------------------------------------------------------------------------
RECURSIVE SumEv(_)
SumEv(S) == IF S = {} THEN 0 ELSE LET c == CHOOSE k \in S : TRUE IN x.ev[c] + SumEv(S \ {c})

InvAdmission == InvC19(CoreSt(x))
InvFresh == \A c \in fresh : FreshOk(x, c)
InvFreshUnits == \A c \in fresh : FreshUnitsOk(x, c)
InvDocCapacity == DocWithinCapacity(x)
InvIdempotent == last # "sync_fresh_changed"
InvEvents == SumEv(DOMAIN x.ev) <= nsync
=============================================================================
