SPECIFICATION Spec
CONSTANTS
  Srv = {"s1", "s2"}
  Ins = {"i1", "i2"}
  MaxVal = 2
  InnerWD = TRUE
  MaxEnv = 6
  MaxLife = 1
INVARIANTS InvDirs InvBackedNoExtra InvArmed InvFilesInDirs InvBackedFresh
CHECK_DEADLOCK FALSE
