INIT Init
NEXT Next
CHECK_DEADLOCK FALSE
CONSTANT Defects = {}
INVARIANT InvRoundTrip
INVARIANT InvInjective
INVARIANT InvIdLen
INVARIANT InvLossless
INVARIANT InvUpdate
