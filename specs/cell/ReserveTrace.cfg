SPECIFICATION Spec
CONSTANT Defects = {}
CHECK_DEADLOCK FALSE
