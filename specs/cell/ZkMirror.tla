------------------------------ MODULE ZkMirror ------------------------------
(* Model-checked form of ZkMirrorOps (see there).  Bounds: MaxEnv           *)
(* environment writes, MaxLife stop/start pairs.                            *)
EXTENDS ZkMirrorOps, TLC

CONSTANTS WatchData, MaxEnv, MaxLife

VARIABLES st, nenv, nlife
vars == <<st, nenv, nlife>>

Vals == 1..MaxVal

Init == st = Init0 /\ nenv = 0 /\ nlife = 0

Create(k, v) == nenv < MaxEnv /\ CanCreate(st, k) /\ st' = DoCreate(st, k, v) /\ nenv' = nenv + 1 /\ UNCHANGED nlife
Set(k, v)    == nenv < MaxEnv /\ CanSet(st, k) /\ st.zk[k].val # v /\ st' = DoSet(st, k, v) /\ nenv' = nenv + 1 /\ UNCHANGED nlife
Delete(k)    == nenv < MaxEnv /\ CanDelete(st, k) /\ st' = DoDelete(st, k) /\ nenv' = nenv + 1 /\ UNCHANGED nlife
Deliver      == CanDeliver(st) /\ st' = DoDeliver(st, WatchData) /\ UNCHANGED <<nenv, nlife>>
Stop         == nlife < MaxLife /\ CanStop(st) /\ st' = DoStop(st) /\ nlife' = nlife + 1 /\ UNCHANGED nenv
Start        == CanStart(st) /\ st' = DoStart(st, WatchData) /\ UNCHANGED <<nenv, nlife>>

Next == \/ \E k \in Keys, v \in Vals : Create(k, v)
        \/ \E k \in Keys, v \in Vals : Set(k, v)
        \/ \E k \in Keys : Delete(k)
        \/ Deliver \/ Stop \/ Start

Spec == Init /\ [][Next]_vars

Settled == st.up /\ st.q = <<>>

TypeOK == /\ \A k \in Keys : st.zk[k].val \in 0..MaxVal /\ st.fs[k] \in 0..MaxVal
          /\ st.watches \subseteq Keys
          /\ \A w \in st.ws : w.k \in Keys

(* nothing is mirrored that does not exist *)
InvNoExtra == Settled => \A k \in Keys : HasFile(st, k) => Exists(st, k)

(* with watch_data a mirrored file holds the node's current data and a live, armed watch stands behind it *)
InvFresh == (Settled /\ WatchData) => \A k \in Keys : HasFile(st, k) => st.fs[k] = st.zk[k].val
InvBacked == (Settled /\ WatchData) => \A k \in Keys : HasFile(st, k) => ArmedOn(st, k) # {}

(* the children watch is never lost: whenever nothing is in flight it is armed *)
InvArmed == Settled => st.carmed

(* a watch object serves at most one incarnation at a time, and each has at most one notification in flight *)
InvOneNote == \A w \in st.ws : Cardinality({j \in DOMAIN st.q : st.q[j].kind = "data" /\ st.q[j].k = w.k /\ st.q[j].n = w.n}) <= (IF w.armed THEN 0 ELSE 1)

(* Without data watches every existing node is mirrored (possibly with the data of an earlier incarnation). *)
InvCompleteNoData == (Settled /\ ~WatchData) => \A k \in Keys : Exists(st, k) => HasFile(st, k)

(* ... but the gap below never outlives the next change of the directory: right after ANY run of the    *)
(* children callback every existing node is mirrored (action property).                                 *)
HealsOnChildRun == [][(CanDeliver(st) /\ Head(st.q).kind = "child" /\ st' = DoDeliver(st, WatchData))
                        => \A k \in Keys : Exists(st', k) => HasFile(st', k)]_vars

(* EXPECTED TO FAIL with WatchData: a node deleted and re-created while a children notification is in      *)
(* flight is seen as "common" by the children callback and then REMOVED by the old node's DELETED          *)
(* notification; nothing re-creates the file until the directory changes again (observed, not judged).      *)
InvComplete == Settled => \A k \in Keys : Exists(st, k) => HasFile(st, k)
=============================================================================
