---------------------------- MODULE CodecExport ----------------------------
(* Dumps the domains Codec.tla enumerates as one JSON object                *)
(* {format: [value, ...]} to the file named by the environment variable     *)
(* C15_DOMAIN; harness/codec_driver.py feeds them to the real codecs.       *)
(* `specs` are the LDAP object specifications (key, variants) from which    *)
(* the harness draws further random objects.                                *)
EXTENDS Codec, Json, IOUtils

ASSUME JsonSerialize(IOEnv.C15_DOMAIN,
                     [rule |-> RuleSeq, uniq |-> UniqSeq, uid |-> UidSeq, event |-> EventSeq, dn |-> DnSeq,
                      zk |-> ZkSeq, ldap |-> LdapSeq, ldapupd |-> LdapUpdSeq,
                      updextra |-> [partition |-> PartitionUpd, cellalloc |-> CellAllocUpd, app |-> AppUpd,
                                    server |-> ServerUpd, cell |-> CellUpd],
                      specs |-> [partition |-> PartitionSpec, cellalloc |-> CellAllocSpec,
                                 app |-> AppSpec, server |-> ServerSpec, cell |-> CellSpec]])
=============================================================================
