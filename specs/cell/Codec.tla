------------------------------- MODULE Codec -------------------------------
(* C15: state kept in names and directory entries round-trips losslessly.   *)
(*                                                                          *)
(* This module is (1) a CHARACTER-LEVEL specification of the name formats   *)
(* Treadmill persists state in -- rule-file names, container unique names,  *)
(* unique ids, trace event node names -- with encoder and decoder written   *)
(* the way the code decodes (split at every ":" / first "-", split from the *)
(* right at "-", split at ",", pop from both ends of a "."-list), so that   *)
(* TLC can check the FORMAT's own unambiguity on a domain whose atoms        *)
(* contain the separators the statement allows in names (. - _ :);          *)
(* (2) a model of the LDAP entry codec (_dict_2_entry / _entry_2_dict with  *)
(* option-indexed object lists) on which TLC checks that the normal form    *)
(* N = from_entry o to_entry is idempotent and to_entry injective on normal *)
(* forms; (3) the ENUMERATION of the boundary-rich finite domains that      *)
(* harness/codec_driver.py feeds to the real encoders and decoders          *)
(* (CodecExport.tla dumps them as JSON, CodecTrace.tla judges the recorded  *)
(* triples).  TLC strings support Len, SubSeq and \o, which is all the      *)
(* formats need.                                                            *)
(*                                                                          *)
(* Abstract values use only strings, integers, booleans, tuples and         *)
(* records so that they survive JSON unchanged.  An optional string is a    *)
(* tuple of length 0 or 1.  Free-form objects (ZooKeeper payloads, LDAP     *)
(* objects) are TAGGED trees: <<"s",str>> <<"i",int>> <<"b",bool>>          *)
(* <<"n",0>> (None) <<"f","1.5">> (float by repr) <<"l",<<items>>>>         *)
(* <<"d",<< <<key,value>>, ... >>>> with keys in ascending order.           *)
(*                                                                          *)
(* Defects: code defects the model should REPRODUCE; {} = the repaired      *)
(* behaviour.  "scheduled_why_none": ScheduledTraceEvent.event_data formats *)
(* a missing reason with %s, so why = None is written as the text "None".   *)
EXTENDS Naturals, Integers, Sequences, FiniteSets, TLC

CONSTANT Defects

(* a set as a sequence, in TLC's (deterministic) enumeration order; the      *)
(* community module's SetToSeq is evaluated natively (no deep recursion)     *)
LOCAL INSTANCE SequencesExt
SeqOfSet(T) == SetToSeq(T)

-----------------------------------------------------------------------------
(* strings                                                                  *)

RECURSIVE Cat(_)
Cat(ss) == IF ss = <<>> THEN "" ELSE Head(ss) \o Cat(Tail(ss))

RECURSIVE Join(_, _)
Join(ss, sep) == IF ss = <<>> THEN ""
                 ELSE IF Len(ss) = 1 THEN ss[1]
                 ELSE ss[1] \o sep \o Join(Tail(ss), sep)

Ch(s, i) == SubSeq(s, i, i)
Pos(s, c) == {i \in 1..Len(s) : Ch(s, i) = c}
MinOf(S) == CHOOSE x \in S : \A y \in S : x <= y
MaxOf(S) == CHOOSE x \in S : \A y \in S : x >= y
Before(s, p) == IF p <= 1 THEN "" ELSE SubSeq(s, 1, p - 1)
After(s, p) == IF p >= Len(s) THEN "" ELSE SubSeq(s, p + 1, Len(s))

(* str.split(c) *)
RECURSIVE Split(_, _)
Split(s, c) == IF Pos(s, c) = {} THEN <<s>>
               ELSE LET p == MinOf(Pos(s, c)) IN <<Before(s, p)>> \o Split(After(s, p), c)
(* str.split(c, 1) and str.rsplit(c, 1) *)
Split1(s, c) == IF Pos(s, c) = {} THEN <<s>>
                ELSE LET p == MinOf(Pos(s, c)) IN <<Before(s, p), After(s, p)>>
RSplit1(s, c) == IF Pos(s, c) = {} THEN <<s>>
                 ELSE LET p == MaxOf(Pos(s, c)) IN <<Before(s, p), After(s, p)>>

Digits == "0123456789"
IsDigit(c) == \E i \in 1..10 : Ch(Digits, i) = c
DigitVal(c) == (CHOOSE i \in 1..10 : Ch(Digits, i) = c) - 1
IsNat(s) == Len(s) > 0 /\ \A i \in 1..Len(s) : IsDigit(Ch(s, i))
RECURSIVE NatOf(_)
NatOf(s) == IF Len(s) = 0 THEN 0
            ELSE 10 * NatOf(Before(s, Len(s))) + DigitVal(Ch(s, Len(s)))
IsInt(s) == IsNat(s) \/ (Len(s) > 1 /\ Ch(s, 1) = "-" /\ IsNat(After(s, 1)))
IntOf(s) == IF Ch(s, 1) = "-" THEN 0 - NatOf(After(s, 1)) ELSE NatOf(s)

Bad == [kind |-> "bad"]

-----------------------------------------------------------------------------
(* FORMAT rule: firewall rule <-> rule-file name                            *)
(* rulefile._DNAT_FILE_PATTERN / _SNAT_FILE_PATTERN / _PASSTHROUGH_...      *)
(* value [kind, chain, proto, sip, sport, dip, dport, nip, nport]; "*" is   *)
(* any ip, port 0 is any port (the format's own identification)             *)

PortS(p) == IF p = 0 THEN "*" ELSE ToString(p)
PortN(s) == IF s = "*" THEN 0 ELSE NatOf(s)
IsPort(s) == s = "*" \/ IsNat(s)

EncRule(v) ==
  IF v.kind = "passthrough"
  THEN Cat(<<v.chain, ":passthrough:", v.sip, "-", v.dip>>)
  ELSE Cat(<<v.chain, ":", v.kind, ":", v.proto, ":", v.sip, ":", PortS(v.sport), ":",
             v.dip, ":", PortS(v.dport), "-", v.nip, ":", ToString(v.nport)>>)

DecRule(s) ==
  LET p == Split(s, ":") IN
  IF Len(p) = 3 /\ p[2] = "passthrough"
  THEN LET q == Split(p[3], "-") IN
       IF Len(q) # 2 THEN Bad
       ELSE [kind |-> "passthrough", chain |-> p[1], proto |-> "", sip |-> q[1], sport |-> 0,
             dip |-> q[2], dport |-> 0, nip |-> "", nport |-> 0]
  ELSE IF Len(p) = 8 /\ p[2] \in {"dnat", "snat"}
  THEN LET q == Split(p[7], "-") IN
       IF Len(q) # 2 \/ ~IsPort(p[5]) \/ ~IsPort(q[1]) \/ ~IsNat(p[8]) THEN Bad
       ELSE [kind |-> p[2], chain |-> p[1], proto |-> p[3], sip |-> p[4], sport |-> PortN(p[5]),
             dip |-> p[6], dport |-> PortN(q[1]), nip |-> q[2], nport |-> NatOf(p[8])]
  ELSE Bad

Chains == {"TM_PREROUTING_DNAT", "TM_POSTROUTING_VRING", "ab", "Chain_of_32_characters_012345678"}
IpsAny == {"*", "0.0.0.0", "10.0.0.1", "255.255.255.255"}
IpsNew == {"1.2.3.4", "192.168.0.255"}
PortsAny == {0, 1, 65535}
PortsNew == {0, 1, 8080, 65535}

RuleBase == [kind |-> "dnat", chain |-> "TM_PREROUTING_DNAT", proto |-> "tcp", sip |-> "*",
             sport |-> 0, dip |-> "10.0.0.1", dport |-> 1, nip |-> "1.2.3.4", nport |-> 8080]
RuleFull == [kind : {"dnat", "snat"}, chain : Chains, proto : {"tcp", "udp"}, sip : IpsAny,
             sport : PortsAny, dip : IpsAny, dport : PortsAny, nip : IpsNew, nport : PortsNew]
RuleDiff(r) == Cardinality({f \in DOMAIN r : r[f] # RuleBase[f]})
PassRules == {[kind |-> "passthrough", chain |-> c, proto |-> "", sip |-> a, sport |-> 0,
               dip |-> b, dport |-> 0, nip |-> "", nport |-> 0] :
              c \in Chains, a \in IpsAny \ {"*"}, b \in IpsAny \ {"*"}}
(* every wildcard/concrete combination of the four matchers for both kinds, *)
(* everything within two fields of the base rule, all passthrough rules     *)
RuleDomain ==
  {r \in RuleFull : r.chain = RuleBase.chain /\ r.proto = RuleBase.proto
                    /\ r.nip = RuleBase.nip /\ r.nport = RuleBase.nport}
  \cup {r \in RuleFull : RuleDiff(r) <= 2}
  \cup PassRules

-----------------------------------------------------------------------------
(* FORMAT uniq: instance name + unique id <-> container unique name         *)
(* appcfg._fmt_unique_name / app_name / app_unique_id.                      *)
(* value [app, inst, uid]; the instance name is app#inst, uid a vector of   *)
(* 13 base-62 digits (77-bit ids are digit vectors here, integers only in   *)
(* Python).  FORMAT uid: what gen_uniqueid yields for a 77-bit seed.        *)

Numerals == "0123456789abcdefghijklmnopqrstuvwxyzABCDEFGHIJKLMNOPQRSTUVWXYZ"
NumeralVal(c) == (CHOOSE i \in 1..62 : Ch(Numerals, i) = c) - 1
IsNumeral(c) == \E i \in 1..62 : Ch(Numerals, i) = c
UidStr(d) == Cat([i \in 1..Len(d) |-> Ch(Numerals, d[i] + 1)])
UidVec(s) == [i \in 1..Len(s) |-> NumeralVal(Ch(s, i))]
IsUid(s) == \A i \in 1..Len(s) : IsNumeral(Ch(s, i))

EncUniq(v) == Cat(<<v.app, "-", v.inst, "-", UidStr(v.uid)>>)
DecUniq(s) ==
  LET a == RSplit1(s, "-") IN
  IF Len(a) # 2 \/ ~IsUid(a[2]) THEN Bad
  ELSE LET b == RSplit1(a[1], "-") IN
       IF Len(b) # 2 THEN Bad
       ELSE [app |-> b[1], inst |-> b[2], uid |-> UidVec(a[2])]
(* the id a unique name ends in *)
IdOfUnique(s) == LET a == RSplit1(s, "-") IN IF Len(a) = 2 THEN a[2] ELSE ""

Zero13 == [i \in 1..13 |-> 0]
Max13 == [i \in 1..13 |-> 61]
Max77 == <<46, 52, 1, 52, 54, 58, 61, 16, 42, 43, 12, 30, 3>>      \* 2^77 - 1
OneHot(p, d) == [i \in 1..13 |-> IF i = p THEN d ELSE 0]
RECURSIVE LexLe(_, _)
LexLe(a, b) == IF a = <<>> THEN TRUE
               ELSE IF Head(a) # Head(b) THEN Head(a) < Head(b)
               ELSE LexLe(Tail(a), Tail(b))
Uids == {Zero13, Max13, Max77,
         <<46, 52, 1, 52, 54, 58, 61, 16, 42, 43, 12, 30, 2>>,
         <<1, 0, 35, 36, 61, 9, 10, 0, 0, 61, 61, 1, 0>>}
        \cup {OneHot(p, 1) : p \in 1..13}
        \cup {OneHot(13, d) : d \in {9, 10, 35, 36, 61}}
        \cup {OneHot(1, d) : d \in {46, 47, 61}}
Apps == {"proid.app", "pro-id.my-app", "p_r.a.b.c", "proid.app-1", "a.b-0000000001",
         "treadmld.foo_bar-baz.x"}
Insts == {"0000000000", "0000000001", "9999999999"}
UniqDomain == [app : Apps, inst : Insts, uid : Uids]

(* gen_uniqueid: only seeds below 2^77 exist *)
EncUid(v) == UidStr(v.uid)
DecUid(v, s) == IF IsUid(s) THEN [inst |-> v.inst, uid |-> UidVec(s)] ELSE Bad
UidDomain == [inst : Insts \cup {"0000012345"}, uid : {u \in Uids : LexLe(u, Max77)}]

-----------------------------------------------------------------------------
(* FORMAT event: trace event <-> event node name                            *)
(* "<object>,<timestamp>,<source>,<type>,<data>" (zknamespace._path_trace,  *)
(* trace.app.zk.publish, trace._zk._process_events, each class's            *)
(* event_data / from_data).  value [cls, type, obj, ts, src, args];         *)
(* args per type, an optional string is a tuple of length 0 or 1.           *)

DataS(v) ==
  CASE v.type = "scheduled" ->
         IF v.args[2] = <<>>
         THEN (IF "scheduled_why_none" \in Defects THEN v.args[1] \o ":None" ELSE v.args[1])
         ELSE v.args[1] \o ":" \o v.args[2][1]
    [] v.type \in {"pending", "pending_delete", "aborted", "configured", "server_state"} -> v.args[1]
    [] v.type \in {"deleted", "server_blackout", "server_blackout_cleared"} -> ""
    [] v.type = "finished" -> ToString(v.args[1]) \o "." \o ToString(v.args[2])
    [] v.type = "killed" -> IF v.args[1] THEN "oom" ELSE ""
    [] v.type = "service_running" -> v.args[1] \o "." \o v.args[2]
    [] v.type = "service_exited" ->
         Join(<<v.args[1], v.args[2], ToString(v.args[3]), ToString(v.args[4])>>, ".")

EncEvent(v) == Join(<<v.obj, v.ts, v.src, v.type, DataS(v)>>, ",")

AppTypes == {"scheduled", "pending", "pending_delete", "aborted", "configured", "deleted",
             "finished", "killed", "service_running", "service_exited"}
ServerTypes == {"server_state", "server_blackout", "server_blackout_cleared"}

ArgsOf(type, data) ==
  CASE type = "scheduled" ->
         IF Pos(data, ":") = {} THEN <<data, <<>>>>
         ELSE LET q == Split1(data, ":") IN <<q[1], <<q[2]>>>>
    [] type \in {"pending", "pending_delete", "aborted", "configured", "server_state"} -> <<data>>
    [] type \in {"deleted", "server_blackout", "server_blackout_cleared"} -> <<>>
    [] type = "finished" ->
         LET q == Split(data, ".") IN
         IF Len(q) = 2 /\ IsInt(q[1]) /\ IsInt(q[2]) THEN <<IntOf(q[1]), IntOf(q[2])>> ELSE <<"bad">>
    [] type = "killed" -> <<data = "oom">>
    [] type = "service_running" ->
         LET q == Split1(data, ".") IN IF Len(q) = 2 THEN <<q[1], q[2]>> ELSE <<q[1], "">>
    [] type = "service_exited" ->
         LET q == Split(data, ".") n == Len(q) IN
         IF n >= 4 /\ IsInt(q[n - 1]) /\ IsInt(q[n])
         THEN <<q[1], Join(SubSeq(q, 2, n - 2), "."), IntOf(q[n - 1]), IntOf(q[n])>>
         ELSE <<"bad">>

DecEvent(s) ==
  LET p == Split(s, ",") IN
  IF Len(p) # 5 \/ p[4] \notin (AppTypes \cup ServerTypes) THEN Bad
  ELSE [cls |-> IF p[4] \in AppTypes THEN "app" ELSE "server", type |-> p[4], obj |-> p[1],
        ts |-> p[2], src |-> p[3], args |-> ArgsOf(p[4], p[5])]

EvObjs == {"proid.app#0000000001", "pro-id.my_app.x#0000012345"}
EvServers == {"server1.example.com"}
EvTs == {"0.0", "1.5", "1600000000.25"}
EvSrcs == {"host1.example.com", "tests"}
EvUids == {"0000000000abc", "ZZZZZZZZZZZZZ"}
EvServices == {"web", "web.server", "a-b_c", "x.y.z"}
(* Scheduled.why is None where master.load_apps placements are re-published *)
(* (_update_task(app, server, why=None)); every other field is a string     *)
AppArgs ==
  {<<"scheduled", <<w, y>>>> : w \in {"s1", "s1.example.com"},
                               y \in {<<>>, <<"">>, <<"evicted">>, <<"s2:down">>, <<"a.b:frozen">>, <<"None">>}}
  \cup {<<"pending", <<y>>>> : y \in {"", "created", "user@REALM:created", "s1.x:down"}}
  \cup {<<"pending_delete", <<y>>>> : y \in {"deleted", "user:deleted"}}
  \cup {<<"aborted", <<y>>>> : y \in {"", "ports", "invalid_type", "some.thing"}}
  \cup {<<"configured", <<u>>>> : u \in EvUids}
  \cup {<<"deleted", <<>>>>}
  \cup {<<"finished", <<rc, sg>>>> : rc \in {0, 1, 255}, sg \in {0, 9, 15}}
  \cup {<<"killed", <<b>>>> : b \in BOOLEAN}
  \cup {<<"service_running", <<u, sv>>>> : u \in EvUids, sv \in EvServices}
  \cup {<<"service_exited", <<u, sv, rc, sg>>>> : u \in EvUids, sv \in EvServices, rc \in {0, 1},
                                                   sg \in {0, 15}}
ServerArgs ==
  {<<"server_state", <<y>>>> : y \in {"up", "down", "frozen"}}
  \cup {<<"server_blackout", <<>>>>, <<"server_blackout_cleared", <<>>>>}

Ev(cls, ta, obj, ts, src) == [cls |-> cls, type |-> ta[1], obj |-> obj, ts |-> ts, src |-> src,
                              args |-> ta[2]]
EvBaseObj == "proid.app#0000000001"
(* every argument variant in a base envelope; every envelope for one variant *)
(* of every type                                                            *)
EventDomain ==
  {Ev("app", ta, EvBaseObj, "1.5", "tests") : ta \in AppArgs}
  \cup {Ev("server", ta, "server1.example.com", "1.5", "tests") : ta \in ServerArgs}
  \cup {Ev("app", ta, o, ts, sr) :
          ta \in {CHOOSE x \in AppArgs : x[1] = ty : ty \in AppTypes},
          o \in EvObjs, ts \in EvTs, sr \in EvSrcs}
  \cup {Ev("server", ta, o, ts, sr) : ta \in ServerArgs, o \in EvServers, ts \in EvTs, sr \in EvSrcs}

-----------------------------------------------------------------------------
(* FORMAT dn: the IDENTIFIER of an admin object <-> its distinguished name.  *)
(* The id is not in the entry, it is in the DN (CellAllocation.dn /          *)
(* _allocation_dn_parts / _dn2cellalloc_id, Partition.dn / _dn2partition_id, *)
(* LdapObject.dn + the entity attribute create() adds).  A tenant path       *)
(* t1:t2:t3 appears REVERSED in the DN (child first), so the decoder must     *)
(* reverse it back.  value [kind, a, b, c]: a = tenant path (sequence of      *)
(* names), b = allocation / partition / application name, c = cell.          *)

DnRoot == "ou=treadmill,dc=verif"
RECURSIVE Rev(_)
Rev(sq) == IF sq = <<>> THEN <<>> ELSE Append(Rev(Tail(sq)), Head(sq))

EncDn(v) ==
  CASE v.kind = "cellalloc" ->
         Join(<<"cell=" \o v.c, "allocation=" \o v.b>>
              \o [i \in DOMAIN v.a |-> "tenant=" \o Rev(v.a)[i]]
              \o <<"ou=allocations", DnRoot>>, ",")
    [] v.kind = "partition" -> Join(<<"partition=" \o v.b, "cell=" \o v.c, "ou=cells", DnRoot>>, ",")
    [] v.kind = "app" -> Join(<<"app=" \o v.b, "ou=apps", DnRoot>>, ",")

DecDn(s) ==
  LET p == Split(s, ",")
      R == [i \in DOMAIN p |-> Split1(p[i], "=")]
      ok == \A i \in DOMAIN R : Len(R[i]) = 2
  IN IF ~ok \/ Len(p) < 3 THEN Bad
     ELSE IF R[1][1] = "cell" /\ R[2][1] = "allocation"
     THEN LET ts == SelectSeq(R, LAMBDA x : x[1] = "tenant")
          IN [kind |-> "cellalloc", a |-> Rev([i \in DOMAIN ts |-> ts[i][2]]), b |-> R[2][2], c |-> R[1][2]]
     ELSE IF R[1][1] = "partition" /\ R[2][1] = "cell"
     THEN [kind |-> "partition", a |-> <<>>, b |-> R[1][2], c |-> R[2][2]]
     ELSE IF R[1][1] = "app" THEN [kind |-> "app", a |-> <<>>, b |-> R[1][2], c |-> ""]
     ELSE Bad

DnNames == {"a", "b", "c", "t-1", "x.y", "09"}
DnPaths ==
  {<<x>> : x \in DnNames}
  \cup {<<"a", "b">>, <<"b", "a">>, <<"a", "a">>, <<"t-1", "x.y">>, <<"x.y", "t-1">>, <<"09", "a">>}
  \cup {<<"a", "b", "c">>, <<"c", "b", "a">>, <<"a", "b", "a">>, <<"a", "a", "b">>, <<"b", "a", "a">>,
         <<"t-1", "09", "x.y">>}
DnDomain ==
  {[kind |-> "cellalloc", a |-> t, b |-> al, c |-> ce] :
     t \in DnPaths, al \in {"x", "dev-1", "a.b"}, ce \in {"c1", "cell-2.x"}}
  \cup {[kind |-> "partition", a |-> <<>>, b |-> pa, c |-> ce] :
     pa \in {"p1", "_default", "p-2.x"}, ce \in {"c1", "cell-2.x"}}
  \cup {[kind |-> "app", a |-> <<>>, b |-> ap, c |-> ""] :
     ap \in {"proid.app", "pro-id.my-app.x", "p.a-1"}}

-----------------------------------------------------------------------------
(* tagged trees                                                             *)

S(x) == <<"s", x>>
I(x) == <<"i", x>>
B(x) == <<"b", x>>
N0 == <<"n", 0>>
Fl(x) == <<"f", x>>
L(xs) == <<"l", xs>>
D(ps) == <<"d", ps>>

(* FORMAT zk: dict / list payload <-> node bytes (zkutils._payload,         *)
(* get_with_metadata).  Nesting <= 2.                                       *)
ZkAtoms == {S(""), S("a"), S("x.y-z_#:,~*"), S("1"), I(0), I(0 - 1), I(2147483647),
            B(TRUE), B(FALSE), N0, Fl("1.5")}
ZkLists(V) == {L(<<>>)} \cup {L(<<a>>) : a \in V} \cup {L(<<a, b>>) : a \in V, b \in V}
ZkDicts(V) == {D(<<>>)} \cup {D(<<<<"a", x>>>>) : x \in V} \cup {D(<<<<"b b", x>>>>) : x \in V}
              \cup {D(<<<<"a", x>>, <<"b b", y>>>>) : x \in V, y \in V}
ZkLevel1 == ZkLists(ZkAtoms) \cup ZkDicts(ZkAtoms)
ZkInner == {L(<<>>), D(<<>>), L(<<S("a"), I(0)>>), D(<<<<"a", N0>>>>), D(<<<<"a", S("")>>, <<"b b", B(FALSE)>>>>),
            L(<<B(TRUE)>>), S("a"), I(0 - 1), N0}
ZkDomain == ZkLevel1 \cup ZkLists(ZkInner) \cup ZkDicts(ZkInner)

-----------------------------------------------------------------------------
(* FORMAT ldap: admin object <-> LDAP entry.  An object specification is a  *)
(* sequence of [k, vs]: key and the variants of its value (vs[1] is the     *)
(* representative).  Enumerated: every presence pattern with at most two    *)
(* keys present or at most one absent, and every variant of every key with  *)
(* all other keys present.                                                  *)

Keys(spec) == {spec[i].k : i \in DOMAIN spec}
ObjOf(spec, present, alt) ==   \* alt: key -> variant index (default 1)
  LET idx == {i \in DOMAIN spec : spec[i].k \in present}
      RECURSIVE go(_)
      go(i) == IF i > Len(spec) THEN <<>>
               ELSE IF i \in idx
                    THEN <<<<spec[i].k, spec[i].vs[IF spec[i].k \in DOMAIN alt THEN alt[spec[i].k] ELSE 1]>>>> \o go(i + 1)
                    ELSE go(i + 1)
  IN D(go(1))
NoAlt == [x \in {} |-> 1]
Patterns(spec) ==
  {{}} \cup {{a, b} : a \in Keys(spec), b \in Keys(spec)}
  \cup {Keys(spec) \ {a} : a \in Keys(spec)} \cup {Keys(spec)}
ObjDomain(spec) ==
  {ObjOf(spec, P, NoAlt) : P \in Patterns(spec)}
  \cup UNION {{ObjOf(spec, Keys(spec), [x \in {spec[i].k} |-> j]) : j \in 2..Len(spec[i].vs)} :
               i \in DOMAIN spec}

F(k, vs) == [k |-> k, vs |-> vs]
Lim(t, c, m, d) == D(<<<<"cpu", S(c)>>, <<"disk", S(d)>>, <<"memory", S(m)>>, <<"trait", S(t)>>>>)

PartitionSpec == <<
  F("_id", <<S("p1"), S("_default")>>),
  F("cpu", <<S("300%"), S("0%"), N0>>),
  F("data", <<D(<<<<"k", S("v")>>>>), D(<<>>), D(<<<<"a", I(1)>>, <<"b", L(<<S("x")>>)>>>>),
              D(<<<<"n", D(<<<<"m", L(<<I(1), D(<<<<"z", S("")>>>>)>>)>>>>)>>>>)>>),
  F("disk", <<S("3G"), S("1024m")>>),
  F("down-threshold", <<I(5), I(0)>>),
  F("limits", <<L(<<Lim("gpu", "200%", "2G", "2048M")>>), L(<<>>),
               L(<<Lim("ssd", "100%", "3g", "1G"), Lim("gpu", "0%", "0G", "0G")>>),
               L(<<D(<<<<"cpu", S("1%")>>, <<"trait", S("x86")>>>>)>>)>>),
  F("memory", <<S("3G"), S("0G")>>),
  F("reboot-schedule", <<S("sat,sun/10:30:00"), S("")>>),
  F("systems", <<L(<<I(1), I(22)>>), L(<<>>), L(<<I(0)>>), N0,
                 L(<<I(7), I(7)>>), L(<<I(22), I(1), I(22)>>)>>)
>>

Asg(p, pr) == D(<<<<"pattern", S(p)>>, <<"priority", I(pr)>>>>)
CellAllocSpec == <<
  F("assignments", <<L(<<Asg("proid.app*", 1)>>), L(<<>>),
                    L(<<Asg("proid.b*", 100), Asg("proid.a-1#*", 1)>>),
                    L(<<D(<<<<"pattern", S("p.*")>>>>)>>)>>),
  F("cell", <<S("c1")>>),
  F("cpu", <<S("100%"), S("0%")>>),
  F("disk", <<S("2G"), S("0m")>>),
  F("max_utilization", <<Fl("1.5"), Fl("0.0"), I(2)>>),
  F("memory", <<S("1G")>>),
  F("partition", <<S("p1"), S("_default"), N0>>),
  F("rank", <<I(100), I(0)>>),
  F("rank_adjustment", <<I(10), I(0)>>),
  F("traits", <<L(<<S("gpu"), S("ssd")>>), L(<<>>), L(<<S("x")>>), N0,
                L(<<S("x"), S("x")>>), L(<<S("ssd"), S("gpu"), S("ssd")>>)>>)
>>

Svc(n, extra) == D(<<<<"command", S("/bin/" \o n)>>, <<"name", S(n)>>>> \o extra)
AppSpec == <<
  F("_id", <<S("proid.app")>>),
  F("affinity_limits", <<D(<<<<"server", I(1)>>>>), D(<<>>), D(<<<<"rack", I(2)>>, <<"server", I(1)>>>>),
                         D(<<<<"pod", I(1)>>, <<"rack", I(1)>>, <<"server", I(1)>>>>)>>),
  F("args", <<L(<<S("--flag"), S("a b")>>), L(<<>>), L(<<S("-v"), S("-v")>>),
              L(<<S("--retries"), S("3"), S("--workers"), S("3")>>), L(<<S("z"), S("a"), S("m")>>)>>),
  F("command", <<S("/bin/sleep 5")>>),
  F("cpu", <<S("10%")>>),
  F("data_retention_timeout", <<S("1d")>>),
  F("disk", <<S("1G")>>),
  F("endpoints", <<L(<<D(<<<<"name", S("http")>>, <<"port", I(8000)>>>>)>>), L(<<>>),
                  L(<<D(<<<<"name", S("ssh")>>, <<"port", I(0)>>, <<"proto", S("tcp")>>, <<"type", S("infra")>>>>),
                      D(<<<<"name", S("dns")>>, <<"port", I(53)>>, <<"proto", S("udp")>>>>)>>)>>),
  F("environ", <<L(<<D(<<<<"name", S("A")>>, <<"value", S("1")>>>>)>>), L(<<>>),
                L(<<D(<<<<"name", S("B")>>, <<"value", S("x=y, z")>>>>), D(<<<<"name", S("A")>>, <<"value", S("")>>>>)>>),
                L(<<D(<<<<"name", S("A")>>, <<"value", S("1")>>>>), D(<<<<"name", S("A")>>, <<"value", S("1")>>>>)>>)>>),
  F("ephemeral_ports", <<D(<<<<"tcp", I(2)>>, <<"udp", I(1)>>>>), D(<<>>), D(<<<<"tcp", I(1)>>>>)>>),
  F("features", <<L(<<S("docker")>>), L(<<>>), L(<<S("x-y"), S("docker"), S("x-y")>>)>>),
  F("identity_group", <<S("proid.ig")>>),
  F("image", <<S("docker://img:1")>>),
  F("keytabs", <<L(<<S("host/x@R")>>), L(<<S("host/x@R"), S("host/x@R")>>), L(<<S("z/y@R"), S("a/b@R")>>)>>),
  F("lease", <<S("1h")>>),
  F("memory", <<S("100M")>>),
  F("passthrough", <<L(<<S("10.0.0.1"), S("host.x")>>), L(<<>>), L(<<S("host.x"), S("10.0.0.1"), S("host.x")>>)>>),
  F("schedule_once", <<B(TRUE), B(FALSE)>>),
  F("services", <<L(<<Svc("web", <<>>)>>), L(<<>>),
                 L(<<Svc("web", <<<<"restart", D(<<<<"interval", I(30)>>, <<"limit", I(0)>>>>)>>>>),
                     Svc("a.b", <<<<"root", B(TRUE)>>, <<"useshell", B(FALSE)>>>>)>>),
                 L(<<D(<<<<"image", S("img")>>, <<"name", S("d")>>, <<"useshell", B(TRUE)>>>>)>>)>>),
  F("shared_ip", <<B(TRUE), B(FALSE)>>),
  F("shared_network", <<B(FALSE), B(TRUE)>>),
  F("tickets", <<L(<<S("u@REALM")>>), L(<<>>), L(<<S("u@REALM"), S("u@REALM")>>), L(<<S("v@R"), S("a@R")>>)>>),
  F("traits", <<L(<<S("gpu")>>), L(<<>>), L(<<S("ssd"), S("gpu"), S("ssd")>>)>>),
  F("vring", <<D(<<<<"cells", L(<<S("c1"), S("c2")>>)>>,
                  <<"rules", L(<<D(<<<<"endpoints", L(<<S("http"), S("ssh")>>)>>, <<"pattern", S("proid.*")>>>>)>>)>>>>),
              D(<<<<"cells", L(<<>>)>>, <<"rules", L(<<>>)>>>>),
              D(<<<<"cells", L(<<S("c1")>>)>>, <<"rules", L(<<>>)>>>>),
              D(<<<<"cells", L(<<S("c2"), S("c1"), S("c2")>>)>>,
                  <<"rules", L(<<D(<<<<"endpoints", L(<<S("http"), S("http")>>)>>, <<"pattern", S("proid.x.*")>>>>),
                               D(<<<<"endpoints", L(<<S("ssh"), S("http"), S("ssh")>>)>>, <<"pattern", S("proid.a*")>>>>)>>)>>>>)>>)
>>

(* Server and Cell: the other two classes with a free-form dict attribute    *)
DataVs == <<D(<<<<"k", S("v")>>>>), D(<<>>), D(<<<<"a", I(1)>>, <<"b", L(<<S("x")>>)>>>>),
            D(<<<<"n", D(<<<<"m", L(<<I(1), D(<<<<"z", S("")>>>>)>>)>>>>)>>>>)>>
ServerSpec == <<
  F("_id", <<S("host1.example.com")>>),
  F("cell", <<S("c1")>>),
  F("data", DataVs),
  F("partition", <<S("p1"), S("_default"), N0>>),
  F("traits", <<L(<<S("gpu"), S("ssd")>>), L(<<>>), L(<<S("x"), S("x")>>)>>)
>>
Mst(i, h) == D(<<<<"hostname", S(h)>>, <<"idx", I(i)>>, <<"zk-client-port", I(2181)>>>>)
CellSpec == <<
  F("_id", <<S("c1")>>),
  F("data", DataVs),
  F("location", <<S("na.east")>>),
  F("masters", <<L(<<Mst(1, "m1.x")>>), L(<<>>), L(<<Mst(2, "m2.x"), Mst(1, "m1.x")>>)>>),
  F("traits", <<L(<<S("gpu")>>), L(<<>>)>>),
  F("version", <<S("1.0")>>)
>>

LdapDomain ==
  {[schema |-> "server", obj |-> o] : o \in ObjDomain(ServerSpec)}
  \cup {[schema |-> "cell", obj |-> o] : o \in ObjDomain(CellSpec)}
  \cup {[schema |-> "partition", obj |-> o] : o \in ObjDomain(PartitionSpec)}
  \cup {[schema |-> "cellalloc", obj |-> o] : o \in ObjDomain(CellAllocSpec)}
  \cup {[schema |-> "app", obj |-> o] : o \in ObjDomain(AppSpec)}

-----------------------------------------------------------------------------
(* model of the LDAP entry codec on tagged objects (Partition and           *)
(* CellAllocation: plain schema + one keyed, option-indexed object list).   *)
(* Entry = set of <<attribute, option index (-1 = none), values>>; empty    *)
(* attributes are never stored (_remove_empty / LDAP itself).               *)

Pairs(o) == o[2]
HasKey(o, k) == \E i \in DOMAIN Pairs(o) : Pairs(o)[i][1] = k
Val(o, k) == Pairs(o)[CHOOSE i \in DOMAIN Pairs(o) : Pairs(o)[i][1] = k][2]

(* plain schema: <<ldap attribute, key, type>>, type in str int float strs ints dict *)
(* _dict_2_entry stores the TEXT of a scalar (six.text_type), a dict as is   *)
Txt(x) == CASE x[1] = "i" -> S(ToString(x[2])) [] x[1] = "f" -> S(x[2]) [] OTHER -> x
PlainToEntry(o, schema, opt) ==
  {<<f[1], opt, IF Val(o, f[2])[1] = "l" THEN [i \in DOMAIN Val(o, f[2])[2] |-> Txt(Val(o, f[2])[2][i])]
                ELSE <<Txt(Val(o, f[2]))>>>> :
     f \in {g \in schema : HasKey(o, g[2]) /\ Val(o, g[2]) # N0 /\ Val(o, g[2]) # L(<<>>)}}

Stored(ty, x) ==    \* a value as LDAP hands it back: text; re-typed by the schema
  CASE ty \in {"str", "strs"} -> x
    [] ty \in {"int", "ints"} -> I(IntOf(x[2]))
    [] ty = "float" -> Fl(IF Pos(x[2], ".") = {} THEN x[2] \o ".0" ELSE x[2])
    [] OTHER -> x

PlainFromEntry(e, schema, opt, fillLists) ==
  LET has(f) == \E t \in e : t[1] = f[1] /\ t[2] = opt
      vals(f) == (CHOOSE t \in e : t[1] = f[1] /\ t[2] = opt)[3]
      keep == {f \in schema : has(f) \/ (fillLists /\ f[3] \in {"strs", "ints"})}
  IN {<<f[2], IF f[3] \in {"strs", "ints"}
              THEN L(IF has(f) THEN [i \in DOMAIN vals(f) |-> Stored(f[3], vals(f)[i])] ELSE <<>>)
              ELSE Stored(f[3], vals(f)[1])>> : f \in keep}

PairSeq(T) == SeqOfSet(T)       \* pairs in one canonical order
SortedBy(xs, key) ==            \* _to_obj_list sorts by the key attribute (any fixed total order)
  LET RECURSIVE go(_)
      go(ks) == IF ks = <<>> THEN <<>>
                ELSE SelectSeq(xs, LAMBDA x : Val(x, key) = Head(ks)) \o go(Tail(ks))
  IN go(SeqOfSet({Val(xs[i], key) : i \in DOMAIN xs}))

ListToEntry(o, lkey, by, schema) ==
  IF ~HasKey(o, lkey) \/ Val(o, lkey)[1] # "l" THEN {}
  ELSE LET xs == SortedBy(Val(o, lkey)[2], by)
       IN UNION {PlainToEntry(xs[i], schema, i - 1) : i \in DOMAIN xs}

ListFromEntry(e, schema) ==
  LET opts == {t[2] : t \in e} \ {0 - 1}
      items == {D(PairSeq(PlainFromEntry(e, schema, k, TRUE))) : k \in opts}
  IN L(SeqOfSet(items))

PartPlain == {<<"partition", "_id", "str">>, <<"cpu", "cpu", "str">>, <<"disk", "disk", "str">>,
              <<"memory", "memory", "str">>, <<"system", "systems", "ints">>,
              <<"down-threshold", "down-threshold", "int">>,
              <<"reboot-schedule", "reboot-schedule", "str">>, <<"data", "data", "dict">>}
PartLimit == {<<"allocation-limit-trait", "trait", "str">>, <<"allocation-limit-cpu", "cpu", "str">>,
              <<"allocation-limit-disk", "disk", "str">>, <<"allocation-limit-memory", "memory", "str">>}
AllocPlain == {<<"cell", "cell", "str">>, <<"cpu", "cpu", "str">>, <<"memory", "memory", "str">>,
               <<"disk", "disk", "str">>, <<"max-utilization", "max_utilization", "float">>,
               <<"rank", "rank", "int">>, <<"rank-adjustment", "rank_adjustment", "int">>,
               <<"trait", "traits", "strs">>, <<"partition", "partition", "str">>}
AllocAssign == {<<"pattern", "pattern", "str">>, <<"priority", "priority", "int">>}

WithDefaults(T, defaults) ==
  T \cup {p \in defaults : ~\E q \in T : q[1] = p[1]}

ModelToEntry(v) ==
  IF v.schema = "partition"
  THEN PlainToEntry(v.obj, PartPlain, 0 - 1) \cup ListToEntry(v.obj, "limits", "trait", PartLimit)
  ELSE PlainToEntry(v.obj, AllocPlain, 0 - 1) \cup ListToEntry(v.obj, "assignments", "pattern", AllocAssign)

ModelFromEntry(schema, e) ==
  IF schema = "partition"
  THEN [schema |-> schema, obj |-> D(PairSeq(
         WithDefaults(PlainFromEntry(e, PartPlain, 0 - 1, TRUE),
                      {<<"cpu", S("0%")>>, <<"memory", S("0G")>>, <<"disk", S("0G")>>})
         \cup {<<"limits", ListFromEntry(e, PartLimit)>>}))]
  ELSE [schema |-> schema, obj |-> D(PairSeq(
         WithDefaults(PlainFromEntry(e, AllocPlain, 0 - 1, TRUE),
                      {<<"cpu", S("0%")>>, <<"memory", S("0G")>>, <<"disk", S("0G")>>,
                       <<"partition", S("_default")>>})
         \cup {<<"assignments", ListFromEntry(e, AllocAssign)>>}))]

ModelNormal(v) == ModelFromEntry(v.schema, ModelToEntry(v))
ModelLdapDomain == {v \in LdapDomain : v.schema \in {"partition", "cellalloc"}}

-----------------------------------------------------------------------------
(* UPDATE.  Admin.update(dn, to_entry(v2)) on a directory that holds        *)
(* to_entry(v1): the stored attributes whose name the new entry mentions    *)
(* are fetched, _diff_entries turns (old, new) into MODIFY_ADD / _REPLACE / *)
(* _DELETE triples, the directory applies them.  Set-wise per attribute     *)
(* family (name without option): every family the new entry MENTIONS ends   *)
(* up with exactly the new entry's non-empty values, every other family is  *)
(* untouched.  to_entry mentions a plain attribute when the key is present  *)
(* and not an empty list (None = mentioned with no value = removal), and    *)
(* ALWAYS mentions the attributes of the option-indexed object list.        *)

Mentioned(v) ==
  LET plain == IF v.schema = "partition" THEN PartPlain ELSE AllocPlain
      sub == IF v.schema = "partition" THEN PartLimit ELSE AllocAssign
  IN {f[1] : f \in {g \in plain : HasKey(v.obj, g[2]) /\ Val(v.obj, g[2]) # L(<<>>)}}
     \cup {f[1] : f \in sub}

ApplyDiff(e1, e2, mentioned) == {t \in e1 : t[1] \notin mentioned} \cup e2
ModelUpdate(v1, v2) == ApplyDiff(ModelToEntry(v1), ModelToEntry(v2), Mentioned(v2))

(* the same at object level: v2's keys override v1's; an empty plain list    *)
(* does not (it is not written at all); the object list is always replaced  *)
ObjMerge(v1, v2) ==
  LET lkey == IF v1.schema = "partition" THEN "limits" ELSE "assignments"
      k1 == {Pairs(v1.obj)[i][1] : i \in DOMAIN Pairs(v1.obj)}
      k2 == {Pairs(v2.obj)[i][1] : i \in DOMAIN Pairs(v2.obj)}
      over(k) == k \in k2 /\ (k = lkey \/ Val(v2.obj, k) # L(<<>>))
      keys == (k1 \cup {k \in k2 : over(k)}) \ (IF lkey \in k2 THEN {} ELSE {lkey})
  IN [schema |-> v1.schema,
      obj |-> D(SeqOfSet({<<k, IF over(k) THEN Val(v2.obj, k) ELSE Val(v1.obj, k)>> : k \in keys}))]

(* v2 says something about everything v1 has: then the result is v2's normal form *)
Complete(v1, v2) == {t[1] : t \in ModelToEntry(v1)} \subseteq Mentioned(v2)

(* pair domain: one key changes between two of its variants (the variants   *)
(* of the object specifications plus the ones below: case only, order only, *)
(* multiplicity only, same text different type, one option changed), a key  *)
(* disappears, a key appears                                                *)
ObjSet(spec, key, val) ==
  D([i \in DOMAIN spec |-> <<spec[i].k, IF spec[i].k = key THEN val ELSE spec[i].vs[1]>>])
ObjDrop(spec, key) == ObjOf(spec, Keys(spec) \ {key}, NoAlt)
VsOf(spec, extra, i) == spec[i].vs \o (IF spec[i].k \in DOMAIN extra THEN extra[spec[i].k] ELSE <<>>)
UpdPairs(spec, extra) ==
  UNION {{<<ObjSet(spec, spec[i].k, VsOf(spec, extra, i)[a]), ObjSet(spec, spec[i].k, VsOf(spec, extra, i)[b])>> :
            a \in DOMAIN VsOf(spec, extra, i), b \in DOMAIN VsOf(spec, extra, i)} : i \in DOMAIN spec}
  \cup UNION {{<<ObjSet(spec, spec[i].k, VsOf(spec, extra, i)[a]), ObjDrop(spec, spec[i].k)>> :
                  a \in DOMAIN VsOf(spec, extra, i)} : i \in DOMAIN spec}
  \cup UNION {{<<ObjDrop(spec, spec[i].k), ObjSet(spec, spec[i].k, VsOf(spec, extra, i)[a])>> :
                  a \in DOMAIN VsOf(spec, extra, i)} : i \in DOMAIN spec}

PartitionUpd ==
  "_id" :> <<S("P1")>>
  @@ "data" :> <<D(<<<<"k", S("V")>>>>)>>
  @@ "down-threshold" :> <<S("5")>>
  @@ "limits" :> <<L(<<Lim("GPU", "200%", "2G", "2048M")>>), L(<<Lim("gpu", "200%", "2g", "2048M")>>),
                  L(<<Lim("gpu", "100%", "2G", "2048M")>>)>>
  @@ "reboot-schedule" :> <<S("SAT,SUN/10:30:00")>>
  @@ "systems" :> <<L(<<I(22), I(1)>>), L(<<I(1), I(1), I(22)>>), L(<<I(1), I(22), I(22)>>),
                   L(<<S("1"), S("22")>>)>>
CellAllocUpd ==
  "assignments" :> <<L(<<Asg("Proid.App*", 1)>>), L(<<Asg("proid.app*", 2)>>),
                     L(<<Asg("proid.a-1#*", 1), Asg("proid.b*", 100)>>)>>
  @@ "cell" :> <<S("C1")>>
  @@ "max_utilization" :> <<S("1.5")>>
  @@ "partition" :> <<S("P1")>>
  @@ "rank" :> <<S("100")>>
  @@ "traits" :> <<L(<<S("GPU"), S("ssd")>>), L(<<S("ssd"), S("gpu")>>), L(<<S("gpu"), S("gpu"), S("ssd")>>)>>
AppUpd ==
  "affinity_limits" :> <<D(<<<<"server", I(2)>>>>), D(<<<<"rack", I(1)>>>>)>>
  @@ "args" :> <<L(<<S("--FLAG"), S("a b")>>), L(<<S("a b"), S("--flag")>>)>>
  @@ "endpoints" :> <<L(<<D(<<<<"name", S("http")>>, <<"port", I(8001)>>>>)>>),
                     L(<<D(<<<<"name", S("http")>>, <<"port", S("8000")>>>>)>>),
                     L(<<D(<<<<"name", S("HTTP")>>, <<"port", I(8000)>>>>)>>)>>
  @@ "environ" :> <<L(<<D(<<<<"name", S("A")>>, <<"value", S("debug")>>>>)>>),
                   L(<<D(<<<<"name", S("A")>>, <<"value", S("DEBUG")>>>>)>>)>>
  @@ "ephemeral_ports" :> <<D(<<<<"tcp", I(2)>>, <<"udp", I(2)>>>>)>>
  @@ "features" :> <<L(<<S("DOCKER")>>)>>
  @@ "identity_group" :> <<S("PROID.IG")>>
  @@ "schedule_once" :> <<S("TRUE"), S("false")>>
  @@ "services" :> <<L(<<D(<<<<"command", S("/BIN/web")>>, <<"name", S("web")>>>>)>>)>>
  @@ "shared_ip" :> <<S("true"), S("True"), S("false")>>
  @@ "tickets" :> <<L(<<S("U@realm")>>)>>
  @@ "vring" :> <<D(<<<<"cells", L(<<S("C1"), S("c2")>>)>>,
                     <<"rules", L(<<D(<<<<"endpoints", L(<<S("ssh"), S("http")>>)>>, <<"pattern", S("proid.*")>>>>)>>)>>>>)>>

ServerUpd == "data" :> <<D(<<<<"K", S("v")>>>>)>>
CellUpd == "data" :> <<D(<<<<"K", S("v")>>>>)>>

LdapUpdDomain ==
  {[schema |-> "server", v1 |-> p[1], v2 |-> p[2]] : p \in UpdPairs(ServerSpec, ServerUpd)}
  \cup {[schema |-> "cell", v1 |-> p[1], v2 |-> p[2]] : p \in UpdPairs(CellSpec, CellUpd)}
  \cup {[schema |-> "partition", v1 |-> p[1], v2 |-> p[2]] : p \in UpdPairs(PartitionSpec, PartitionUpd)}
  \cup {[schema |-> "cellalloc", v1 |-> p[1], v2 |-> p[2]] : p \in UpdPairs(CellAllocSpec, CellAllocUpd)}
  \cup {[schema |-> "app", v1 |-> p[1], v2 |-> p[2]] : p \in UpdPairs(AppSpec, AppUpd)}
ModelUpdDomain == {u \in LdapUpdDomain : u.schema \in {"partition", "cellalloc"}}

-----------------------------------------------------------------------------
(* LOSSLESS lists.  The normal form may re-order a list and add defaults,   *)
(* it must not LOSE an element: every non-empty list an object is written   *)
(* with (at any depth; paths go through dictionary keys, the elements of a  *)
(* list of dictionaries share one path) comes back with the same length,    *)
(* and a list of atoms with the same elements as a multiset.  No list-typed *)
(* attribute is exempt: the JSON schemas have no uniqueItems and            *)
(* _dict_2_entry / _entry_2_dict copy lists element by element              *)
(* (admin/_ldap.py:139-151, 97-102); set semantics exist only in            *)
(* _diff_attribute_values (:397), which decides whether update() touches    *)
(* an attribute, not what is stored.                                        *)

IsAtom(t) == t[1] \in {"s", "i", "b", "n", "f"}
BagOf(xs) == {<<xs[i], Cardinality({j \in DOMAIN xs : xs[j] = xs[i]})>> : i \in DOMAIN xs}

RECURSIVE ListSigs(_, _)
ListSigs(t, path) ==
  IF t[1] = "d"
  THEN LET ps == t[2]
           RECURSIVE go(_)
           go(i) == IF i > Len(ps) THEN <<>>
                    ELSE ListSigs(ps[i][2], Append(path, ps[i][1])) \o go(i + 1)
       IN go(1)
  ELSE IF t[1] = "l" /\ t[2] # <<>>
  THEN LET xs == t[2]
           own == IF \A i \in DOMAIN xs : IsAtom(xs[i])
                  THEN <<<<path, "atoms", BagOf(xs)>>>>
                  ELSE <<<<path, "len", Len(xs)>>>>
           RECURSIVE go(_)
           go(i) == IF i > Len(xs) THEN <<>> ELSE ListSigs(xs[i], path) \o go(i + 1)
       IN own \o go(1)
  ELSE <<>>

(* FREE-FORM dict attributes (`data` of Partition, Server, Cell: schema type *)
(* dict, stored as JSON).  A dict the object was written with -- the EMPTY  *)
(* one included -- comes back equal: `data: {}` and "no data" are different *)
(* objects and have different encodings ({} is stored as the text "{}").    *)
DictKeys == {"data"}
DictsKept(x, n) ==
  \A key \in DictKeys :
    (HasKey(x, key) /\ Val(x, key)[1] = "d") => (HasKey(n, key) /\ Val(n, key) = Val(x, key))

CountIn(e, sq) == Cardinality({i \in DOMAIN sq : sq[i] = e})
Lossless(x, n) ==
  LET sx == ListSigs(x, <<>>)
      sn == ListSigs(n, <<>>)
  IN \A i \in DOMAIN sx : CountIn(sx[i], sx) <= CountIn(sx[i], sn)

-----------------------------------------------------------------------------
(* the formats together                                                     *)

NameFormats == {"rule", "uniq", "uid", "event", "dn"}
Formats == NameFormats \cup {"zk", "ldap"}

Domain(f) == CASE f = "rule" -> RuleDomain [] f = "uniq" -> UniqDomain [] f = "uid" -> UidDomain
               [] f = "event" -> EventDomain [] f = "zk" -> ZkDomain [] f = "ldap" -> LdapDomain
               [] f = "dn" -> DnDomain

Enc(f, v) == CASE f = "rule" -> EncRule(v) [] f = "uniq" -> EncUniq(v) [] f = "uid" -> EncUid(v)
               [] f = "event" -> EncEvent(v) [] f = "dn" -> EncDn(v)
Dec(f, v, s) == CASE f = "rule" -> DecRule(s) [] f = "uniq" -> DecUniq(s) [] f = "uid" -> DecUid(v, s)
                  [] f = "event" -> DecEvent(s) [] f = "dn" -> DecDn(s)

(* what an encoding identifies: the whole value, except that a unique id    *)
(* identifies the 77-bit seed, whichever instance it was generated for       *)
Ident(f, v) == IF f = "uid" THEN v.uid ELSE v

(* the domains as sequences (export)                                        *)
RuleSeq == SeqOfSet(RuleDomain)
UniqSeq == SeqOfSet(UniqDomain)
UidSeq == SeqOfSet(UidDomain)
EventSeq == SeqOfSet(EventDomain)
DnSeq == SeqOfSet(DnDomain)
ZkSeq == SeqOfSet(ZkDomain)
LdapSeq == SeqOfSet(LdapDomain)
ModelLdapSeq == SeqOfSet(ModelLdapDomain)
LdapUpdSeq == SeqOfSet(LdapUpdDomain)
ModelUpdSeq == SeqOfSet(ModelUpdDomain)
(* the states carry the VALUE (TLC does not cache the domain definitions:    *)
(* indexing a domain sequence per state recomputes it)                      *)
CheckedFormats == NameFormats \cup {"ldapmodel", "updmodel"}
DomOf(f) == CASE f = "rule" -> RuleDomain [] f = "uniq" -> UniqDomain [] f = "uid" -> UidDomain
              [] f = "event" -> EventDomain [] f = "dn" -> DnDomain [] f = "ldapmodel" -> ModelLdapDomain
              [] f = "updmodel" -> ModelUpdDomain

VARIABLES fmt, k
(* one state per (format, value) plus one state ("inj", format) where the    *)
(* format's injectivity is evaluated once                                   *)
Init == \/ fmt \in CheckedFormats /\ k \in DomOf(fmt)
        \/ fmt = "inj" /\ k \in CheckedFormats \ {"updmodel"}
Next == UNCHANGED <<fmt, k>>

ValueAt == k

InvRoundTrip ==
  CASE fmt = "ldapmodel" -> ModelNormal(ModelNormal(ValueAt)) = ModelNormal(ValueAt)
    [] fmt \in {"updmodel", "inj"} -> TRUE
    [] OTHER -> Dec(fmt, ValueAt, Enc(fmt, ValueAt)) = ValueAt

(* the entry-level, set-wise update decodes to the object-level merge; when  *)
(* the new object says something about everything the old one has, to the   *)
(* new object's normal form                                                 *)
InvUpdate ==
  fmt = "updmodel" =>
    LET a == [schema |-> ValueAt.schema, obj |-> ValueAt.v1]
        b == [schema |-> ValueAt.schema, obj |-> ValueAt.v2]
        got == ModelFromEntry(a.schema, ModelUpdate(a, b))
    IN /\ got = ModelNormal(ObjMerge(a, b))
       /\ Complete(a, b) => got = ModelNormal(b)
       /\ DictsKept(b.obj, got.obj)

InvInjective ==
  fmt = "inj" =>
    IF k = "ldapmodel"
    THEN LET NF == {ModelNormal(v) : v \in ModelLdapDomain}
         IN Cardinality({<<n.schema, ModelToEntry(n)>> : n \in NF}) = Cardinality(NF)
    ELSE Cardinality({Enc(k, v) : v \in Domain(k)}) = Cardinality({Ident(k, v) : v \in Domain(k)})

InvLossless == fmt = "ldapmodel" => /\ Lossless(ValueAt.obj, ModelNormal(ValueAt).obj)
                                      /\ DictsKept(ValueAt.obj, ModelNormal(ValueAt).obj)

InvIdLen ==
  /\ fmt = "uniq" => Len(IdOfUnique(Enc(fmt, ValueAt))) = 13
  /\ fmt = "uid" => Len(Enc(fmt, ValueAt)) = 13
=============================================================================
