------------------------------ MODULE ZkMirror2 ------------------------------
EXTENDS ZkMirror2Ops, TLC
CONSTANTS MaxEnv, MaxLife
VARIABLES st, nenv, nlife
vars == <<st, nenv, nlife>>
Vals == 1..MaxVal

Init == st = Init0 /\ nenv = 0 /\ nlife = 0
CreateServer(s) == nenv < MaxEnv /\ CanCreateServer(st, s) /\ st' = DoCreateServer(st, s) /\ nenv' = nenv + 1 /\ UNCHANGED nlife
DeleteServer(s) == nenv < MaxEnv /\ CanDeleteServer(st, s) /\ st' = DoDeleteServer(st, s) /\ nenv' = nenv + 1 /\ UNCHANGED nlife
CreateInst(s, i, v) == nenv < MaxEnv /\ CanCreateInst(st, s, i) /\ st' = DoCreateInst(st, s, i, v) /\ nenv' = nenv + 1 /\ UNCHANGED nlife
SetInst(s, i, v) == nenv < MaxEnv /\ InnerWD /\ CanSetInst(st, s, i) /\ st.zi[s][i] # v /\ st' = DoSetInst(st, s, i, v) /\ nenv' = nenv + 1 /\ UNCHANGED nlife
DeleteInst(s, i) == nenv < MaxEnv /\ CanDeleteInst(st, s, i) /\ st' = DoDeleteInst(st, s, i) /\ nenv' = nenv + 1 /\ UNCHANGED nlife
Deliver == CanDeliver(st) /\ st' = DoDeliver(st) /\ UNCHANGED <<nenv, nlife>>
Stop == nlife < MaxLife /\ CanStop(st) /\ st' = DoStop(st) /\ nlife' = nlife + 1 /\ UNCHANGED nenv
Start == CanStart(st) /\ st' = DoStart(st) /\ UNCHANGED <<nenv, nlife>>

Next == \/ \E s \in Srv : CreateServer(s)
        \/ \E s \in Srv : DeleteServer(s)
        \/ \E s \in Srv, i \in Ins, v \in Vals : CreateInst(s, i, v)
        \/ \E s \in Srv, i \in Ins, v \in Vals : SetInst(s, i, v)
        \/ \E s \in Srv, i \in Ins : DeleteInst(s, i)
        \/ Deliver \/ Stop \/ Start
Spec == Init /\ [][Next]_vars

Settled == st.up /\ st.q = <<>>
InvNoExtra == Settled => \A s \in Srv : /\ st.fd[s] => st.zs[s]
                                        /\ \A i \in Ins : st.ff[s][i] # 0 => st.zi[s][i] # 0
InvComplete == Settled => \A s \in Srv : /\ st.zs[s] => st.fd[s]
                                         /\ \A i \in Ins : st.zi[s][i] # 0 => st.ff[s][i] # 0
(* EXPECTED TO FAIL (observed, not judged): a server deleted and re-created within the latency of one
   outer notification is "common" to the outer callback while its inner watch has stopped on the deleted
   node: nothing under the new node is mirrored until the process restarts (InvBacked, then InvComplete) *)
InvBacked == Settled => \A s \in Srv : st.zs[s] => ArmedOn(st, s) # {}
InvArmed == Settled => st.oarmed
(* what does hold: a directory only for an existing server, and under a server whose inner watch is alive
   exactly the existing instances *)
InvDirs == Settled => \A s \in Srv : st.fd[s] => st.zs[s]
InvBackedExact == Settled => \A s \in Srv : (st.zs[s] /\ st.fd[s] /\ ArmedOn(st, s) # {}) =>
                     \A i \in Ins : (st.ff[s][i] # 0) = (st.zi[s][i] # 0)
(* with watch_data a mirrored file under a watched server is also CURRENT *)
InvBackedFresh == (Settled /\ InnerWD) => \A s \in Srv : (st.zs[s] /\ st.fd[s] /\ ArmedOn(st, s) # {}) =>
                     \A i \in Ins : st.ff[s][i] # 0 => (st.ff[s][i] = st.zi[s][i] /\ DArmedOn(st, s, i) # {})
InvBackedNoExtra == Settled => \A s \in Srv : (st.zs[s] /\ st.fd[s] /\ ArmedOn(st, s) # {}) =>
                     \A i \in Ins : st.ff[s][i] # 0 => st.zi[s][i] # 0
InvOneWatch == \A s \in Srv : Cardinality({w \in st.iw : w.s = s}) <= 1
InvFilesInDirs == \A s \in Srv : ~st.fd[s] => st.ff[s] = NoInst
(* EXPECTED TO FAIL: the mirror process can be killed by its own callback *)
InvNoDeath == st.deaths = 0
=============================================================================
