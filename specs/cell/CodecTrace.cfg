INIT TraceInit
NEXT TraceNext
CONSTANT Defects = {}
CHECK_DEADLOCK FALSE
