------------------------------- MODULE AppMon -------------------------------
(* C20 - the app monitor converges to the target count without overshoot.    *)
(*                                                                          *)
(* Model of treadmill.sproc.appmonitor: per monitor a token bucket           *)
(*   [count, avail, last, policy (+ ghosts spent, since)]                    *)
(*   avail in units of 1/3600 token, so that                                 *)
(*   rate*dt = 2*count*dt is exact integer arithmetic; cap 2*count*3600      *)
(* `susp` (until-times), the instances the monitor sees per application      *)
(* (`view`, a set of [name, n]; n is the sequence number = age order), the   *)
(* clock, and what an accepted POST has promised but the cell has not done   *)
(* yet (`pend`): the monitor acts on what it SEES, so an evaluation before   *)
(* InstancesCreated asks again - C20 is a statement per evaluation.          *)
(*                                                                          *)
(* Evaluate(o) is ONE action = one call of reevaluate(): it produces the     *)
(* sequence of REST calls; o[a] is the API's answer for application a        *)
(* (ok / notfound / badrequest / validation / error), chosen by the          *)
(* environment.  The clauses of C20 are evaluated, in every reachable state,  *)
(* on (what the monitor holds, the calls an evaluation issues from there)    *)
(* with the operators of AppMonOps, the same ones AppMonTrace.tla applies to *)
(* recorded executions.                                                      *)
(* Defects: "max_allowed" (min -> max), "lifo_wrong_end", "no_deduct",       *)
(* "ignore_suspended", "create_and_delete", "overfill" - model mutants;      *)
(* "no_default_policy", "susp_rebound"; "quiet_suspend" - mutant of the      *)
(* published                                                                  *)
(* bookkeeping (extension below).                                            *)
EXTENDS AppMonOps, TLC

CONSTANTS AppSeq,      \* sequence of application names
          Counts,      \* target counts
          Policies,    \* subset of {"", "fifo", "lifo"}
          Ticks,       \* clock increments (seconds)
          MaxSteps, MaxInst, EvalOutcomes, Defects

VARIABLE st
vars == <<st>>

TOK == 3600
Apps == {AppSeq[i] : i \in DOMAIN AppSeq}
Init == st = [now |-> 0, mon |-> EmptyFn, susp |-> EmptyFn,
              view |-> [a \in Apps |-> {}], pend |-> [a \in Apps |-> [create |-> 0, delete |-> {}]],
              nextid |-> 1, steps |-> 0,
              osusp |-> EmptyFn,    \* observer: back-off periods derived from the handled API
                                    \* failures and the clock alone (dropped when the monitor is deleted)
              detached |-> FALSE,   \* mutant "susp_rebound" only
              pub |-> EmptyFn,      \* extension: the map stored in the /app-monitors node
              lastw |-> EmptyFn]    \* extension: `last_waited`, what the last reevaluate() returned

Step(s) == [s EXCEPT !.steps = @ + 1]
More == st.steps < MaxSteps

(* _monitor_data_watch: a (re)configured monitor starts with a full bucket;  *)
(* update_appmonitor writes only when the content changes                    *)
(* p = "": no policy given - masterapi.update_appmonitor then leaves the field   *)
(* alone: a new monitor's node has NO policy (the default, fifo, must apply), an *)
(* existing one keeps its policy                                                *)
Configure(a, c, p) ==
  /\ More /\ a \in Apps /\ c \in Counts /\ p \in Policies
  /\ LET q == IF p = "" /\ a \in DOMAIN st.mon THEN st.mon[a].policy ELSE p IN
     /\ ~(a \in DOMAIN st.mon /\ st.mon[a].count = c /\ st.mon[a].policy = q)
     /\ st' = Step([st EXCEPT !.mon = Put(@, a, [count |-> c, avail |-> CapOf(c, TOK),
                                                last |-> st.now, policy |-> q,
                                                spent |-> 0, since |-> st.now])])

DeleteMonitor(a) ==
  /\ More /\ a \in DOMAIN st.mon
  /\ st' = Step([st EXCEPT !.mon = Drop(@, a),
                           !.osusp = IF a \in DOMAIN @ THEN Drop(@, a) ELSE @])

Tick(d) == More /\ d \in Ticks /\ st' = Step([st EXCEPT !.now = @ + d])

(* the j-th oldest instance of a finishes / is deleted by somebody *)
InstanceDies(a, j) ==
  /\ More /\ a \in Apps /\ j \in 1..Cardinality(st.view[a])
  /\ LET x == CHOOSE y \in st.view[a] : Cardinality({w \in st.view[a] : w.n < y.n}) = j - 1
     IN st' = Step([st EXCEPT !.view[a] = @ \ {x},
                              !.pend[a].delete = @ \ {x}])

NewInst(from, k) == {[name |-> i, n |-> i] : i \in from..(from + k - 1)}

(* somebody else starts an instance of a (this is how a surplus arises) *)
ExternalCreate(a) ==
  /\ More /\ a \in Apps /\ Cardinality(st.view[a]) < MaxInst
  /\ st' = Step([st EXCEPT !.view[a] = @ \cup NewInst(st.nextid, 1), !.nextid = @ + 1])

(* the cell carries out what accepted POSTs promised *)
InstancesCreated(a) ==
  /\ More /\ a \in Apps /\ st.pend[a].create > 0
  /\ LET k == Min2(st.pend[a].create, MaxInst - Cardinality(st.view[a])) IN
     st' = Step([st EXCEPT !.view[a] = @ \cup NewInst(st.nextid, k), !.nextid = @ + k,
                           !.pend[a].create = 0])

InstancesDeleted(a) ==
  /\ More /\ a \in Apps /\ st.pend[a].delete # {}
  /\ st' = Step([st EXCEPT !.view[a] = @ \ st.pend[a].delete, !.pend[a].delete = {}])

(* ---- one evaluation -------------------------------------------------------- *)
Pre == [now |-> st.now, mon |-> st.mon, susp |-> st.susp, view |-> st.view]

(* everything reevaluate() does for application a (a monitor exists), given the *)
(* API's answer o                                                               *)
EvalApp(a, o) ==
  LET m0 == st.mon[a]
      act == "ignore_suspended" \in Defects \/ ~Suspended(st.susp, a, st.now)
      r == IF "overfill" \in Defects
           THEN m0.avail + PerSec(m0.count, TOK) * (st.now - m0.last)
           ELSE Refilled(m0.avail, m0.count, m0.last, st.now, TOK)
      m == IF act THEN [m0 EXCEPT !.avail = r, !.last = st.now] ELSE m0
      cur == Cardinality(st.view[a])
      needed == m.count - cur
      alw == IF act /\ needed > 0
             THEN (IF "max_allowed" \in Defects THEN Max2(needed, m.avail \div TOK)
                   ELSE Min2(needed, m.avail \div TOK))
             ELSE 0
      mk == IF alw > 0
            THEN <<[app |-> a, op |-> "create", n |-> alw, insts |-> {}, o |-> o]>> ELSE <<>>
      pol == IF "lifo_wrong_end" \in Defects
             THEN (IF m.policy = "lifo" THEN "fifo" ELSE "lifo") ELSE m.policy
      (* mutant "no_default_policy": a monitor without a policy field is treated as *)
      (* having an invalid policy - no delete call                                  *)
      valid == ~("no_default_policy" \in Defects /\ m.policy = "")
      del == act /\ valid
             /\ (m.count < cur \/ ("create_and_delete" \in Defects /\ alw > 0 /\ cur > 0))
      gone == IF m.count < cur THEN SurplusSet(st.view[a], cur - m.count, pol) ELSE st.view[a]
      rm == IF del
            THEN <<[app |-> a, op |-> "delete", n |-> 0, insts |-> gone,
                    o |-> IF o = "ok" THEN "ok" ELSE "error"]>> ELSE <<>>
  IN [calls |-> mk \o rm,
      mon |-> IF alw > 0 /\ o = "ok"
              THEN [m EXCEPT !.avail = IF "no_deduct" \in Defects THEN @ ELSE @ - alw * TOK,
                             !.spent = @ + alw * TOK]
              ELSE m,
      fail |-> alw > 0 /\ o \in Failing,
      pcreate |-> IF alw > 0 /\ o = "ok" THEN alw ELSE 0,
      pdelete |-> IF del /\ o = "ok" THEN gone ELSE {},
      (* extension (bookkeeping): rate limited => estimated wake-up time         *)
      (* `now + int((1 - available) / rate)`, else -1                            *)
      wait |-> IF act /\ needed > 0 /\ alw <= 0
               THEN st.now + (TOK - m.avail) \div PerSec(m.count, TOK) ELSE 0 - 1,
      (* ... and whether this application makes reevaluate() rewrite the node   *)
      mod |-> \/ act /\ a \in DOMAIN st.susp                       \* past-due suspension popped
              \/ act /\ needed > 0 /\ alw <= 0 /\ a \notin DOMAIN st.lastw   \* new wait item
              \/ alw > 0 /\ o = "ok" /\ a \in DOMAIN st.lastw           \* out of the wait list
              \/ alw > 0 /\ o \in Failing /\ "quiet_suspend" \notin Defects
              \/ del /\ o = "ok"]

(* answers matter only where there is a call; a bulk delete either works or not *)
OutFor(a) ==
  IF a \notin DOMAIN st.mon THEN {"ok"}
  ELSE LET r == EvalApp(a, "ok") IN
       IF r.calls = <<>> THEN {"ok"}
       ELSE IF r.calls[1].op = "create" THEN EvalOutcomes
       ELSE EvalOutcomes \cap {"ok", "error"}

RECURSIVE AllCalls(_, _)
AllCalls(j, o) == IF j > Len(AppSeq) THEN <<>>
                  ELSE (IF AppSeq[j] \in DOMAIN st.mon THEN EvalApp(AppSeq[j], o[AppSeq[j]]).calls
                        ELSE <<>>) \o AllCalls(j + 1, o)

Evaluate(o) ==
  /\ More
  /\ o \in [Apps -> EvalOutcomes]
  /\ \A a \in Apps : o[a] \in OutFor(a)
  /\ LET r == [a \in DOMAIN st.mon |-> EvalApp(a, o[a])]
         keep == {a \in DOMAIN st.susp : a \in DOMAIN st.mon /\ st.susp[a] > st.now}
         failing == {a \in DOMAIN st.mon : r[a].fail}
         susp1 == [a \in keep \cup failing |->
                     IF a \in failing THEN st.now + DelayS ELSE st.susp[a]]
         limited == {a \in DOMAIN st.mon : r[a].wait >= 0}
         (* `waited.update(suspended)`: what reevaluate() returns *)
         waited == [a \in limited \cup DOMAIN susp1 |->
                      IF a \in DOMAIN susp1 THEN susp1[a] ELSE r[a].wait]
         modified == \/ \E a \in DOMAIN st.susp : a \notin DOMAIN st.mon   \* vanished monitors
                     \/ \E a \in DOMAIN st.mon : r[a].mod
         (* mutant "susp_rebound": dropping the entries of vanished monitors rebinds the  *)
         (* local name to a private copy; from then on (the stale entry is never removed   *)
         (* from the shared dict) every change of the suspension map is forgotten          *)
         vanished == \E a \in DOMAIN st.susp : a \notin DOMAIN st.mon
         det == "susp_rebound" \in Defects /\ (st.detached \/ vanished)
         live == {a \in DOMAIN st.osusp : st.osusp[a] > st.now}
     IN st' = Step([st EXCEPT
            !.detached = det,
            !.osusp = [a \in live \cup failing |->
                         IF a \in failing THEN st.now + DelayS ELSE st.osusp[a]],
            !.pub = IF modified THEN waited ELSE @,
            !.lastw = waited,
            !.mon = [a \in DOMAIN st.mon |-> r[a].mon],
            !.susp = IF det THEN st.susp ELSE susp1,
            !.pend = [a \in Apps |->
                        IF a \in DOMAIN st.mon
                        THEN [create |-> st.pend[a].create + r[a].pcreate,
                              delete |-> st.pend[a].delete \cup r[a].pdelete]
                        ELSE st.pend[a]]])

Next ==
  \/ \E a \in Apps, c \in Counts, p \in Policies : Configure(a, c, p)
  \/ \E a \in Apps : DeleteMonitor(a)
  \/ \E d \in Ticks : Tick(d)
  \/ \E a \in Apps, j \in 1..MaxInst : InstanceDies(a, j)
  \/ \E a \in Apps : ExternalCreate(a)
  \/ \E a \in Apps : InstancesCreated(a)
  \/ \E a \in Apps : InstancesDeleted(a)
  \/ \E o \in [Apps -> EvalOutcomes] : Evaluate(o)

Spec == Init /\ [][Next]_vars

-----------------------------------------------------------------------------
(* C20: in EVERY reachable state the evaluation that would start there obeys  *)
(* the step clauses (the calls do not depend on the API's answers), and the   *)
(* bucket obeys the state clause.                                             *)
AllOk == [a \in Apps |-> "ok"]
InvNoOvershoot == NoOvershoot(Pre, AllCalls(1, AllOk))
InvBudget == BudgetStep(Pre, AllCalls(1, AllOk), TOK, 0) /\ BudgetState(st.mon, TOK, 0)
InvSurplus == Surplus(Pre, AllCalls(1, AllOk))
InvNotBoth == NotBoth(AllCalls(1, AllOk))
InvQuiet == Quiet(Pre, AllCalls(1, AllOk))
(* ... and against the OBSERVER's back-off periods (handled failure at t => no   *)
(* call for that monitor before t + 300 s, unless it was deleted meanwhile), not *)
(* the monitor's own `suspended` dict: mutant "susp_rebound" forgets suspensions *)
(* and passes InvQuiet, which trusts the dict                                    *)
InvQuietObs == Quiet([Pre EXCEPT !.susp = st.osusp], AllCalls(1, AllOk))
(* the rate budget in closed form, independent of the bucket's bookkeeping     *)
(* (ghosts spent/since): since its (re)configuration a monitor obtained at     *)
(* most the full bucket plus what accrued, 2*count per hour                    *)
InvRate == \A a \in DOMAIN st.mon :
             st.mon[a].spent <= CapOf(st.mon[a].count, TOK)
                                + PerSec(st.mon[a].count, TOK) * (st.now - st.mon[a].since)

-----------------------------------------------------------------------------
(* Extension beyond C20 (DESIGN 5, right-hand column): the bookkeeping the     *)
(* monitor publishes.  reevaluate() returns `waited` = {rate-limited monitor:  *)
(* estimated wake-up} updated with the suspension map, and writes it to the    *)
(* /app-monitors node ONLY when `modified` (a suspension appeared, expired or  *)
(* lost its monitor; a monitor entered the wait list, or left it by a          *)
(* successful POST; a delete succeeded).  masterapi.get_appmonitor shows       *)
(* pub[a] as `suspend_until`.                                                  *)
(* Guaranteed (invariants): every suspension the monitor holds is published    *)
(* with its exact until-time; every monitor in the last `waited` is published. *)
(* NOT guaranteed (InvExtNoStale is violated, see NOTES): an entry disappears  *)
(* when its cause does - a rate-limited monitor whose instances came back by   *)
(* other means, or that was deleted, stays listed until the next rewrite.      *)
InvExtPubSusp == \A a \in DOMAIN st.susp : a \in DOMAIN st.pub /\ st.pub[a] = st.susp[a]
InvExtWaitedPublished == DOMAIN st.lastw \subseteq DOMAIN st.pub
InvExtNoStale == DOMAIN st.pub \subseteq DOMAIN st.lastw
=============================================================================
