---------------------------- MODULE ArchiveOps ----------------------------
(* Pure operators of the trace-archiver model (C18), shared by Archive.tla  *)
(* (model checking) and ArchiveTrace.tla (judging recorded executions of    *)
(* treadmill.trace._zk / trace.app.zk / trace.server.zk).                    *)
(*                                                                          *)
(* An event is a record with at least                                       *)
(*   inst  instance (or server) name the event belongs to                   *)
(*   ts    timestamp (the number in the node name; mtime for /finished)     *)
(*   sh    shard number                                                     *)
(*   k     tie-break: rank of the node name (distinct per event)            *)
(* mode: "trace"    cleanup_trace    (scheduled set + expiry, sorted by     *)
(*                                    (timestamp, shard, name))             *)
(*       "finished" cleanup_finished (expiry on last_modified, listing order)*)
(*       "server"   cleanup_server_trace (no expiry, no scheduled set,      *)
(*                                    re-lists before every batch)          *)
EXTENDS Naturals, Integers, Sequences, FiniteSets

BeforeT(a, b) == \/ a.ts < b.ts
                 \/ a.ts = b.ts /\ a.sh < b.sh
                 \/ a.ts = b.ts /\ a.sh = b.sh /\ a.k < b.k

(* order in which the code forms batches *)
Before(mode, a, b) == IF mode = "finished" THEN a.k < b.k ELSE BeforeT(a, b)

Rank(mode, e, S) == Cardinality({f \in S : Before(mode, f, e)})

OrderSeq(mode, S) == [i \in 1..Cardinality(S) |-> CHOOSE e \in S : Rank(mode, e, S) = i - 1]

Oldest(mode, S, n) == {e \in S : Rank(mode, e, S) < n}

(* `timestamp < time.time() - expires_after`; le = the mutant `<=` *)
Old(e, now, expiry, le) == IF le THEN e.ts + expiry <= now ELSE e.ts + expiry < now

Eligible(mode, e, ssnap, now, expiry, le) ==
  /\ (mode = "trace" => e.inst \notin ssnap)
  /\ (mode # "server" => Old(e, now, expiry, le))

EligibleSet(mode, live, ssnap, now, expiry) ==
  {e \in live : Eligible(mode, e, ssnap, now, expiry, FALSE)}

(* ---- one sequential run as a sequence of ZooKeeper writes --------------- *)
(* S = sorted eligible events, b = batch size.  The run performs, per full  *)
(* batch, one create (the snapshot) and then b deletes.                      *)
NBatches(S, b) == Len(S) \div b
TotalWrites(S, b) == NBatches(S, b) * (b + 1)
NDeleted(w, b) == LET fb == w \div (b + 1)
                      r == w % (b + 1)
                  IN fb * b + (IF r = 0 THEN 0 ELSE r - 1)
NSnaps(w, b) == LET fb == w \div (b + 1)
                    r == w % (b + 1)
                IN fb + (IF r = 0 THEN 0 ELSE 1)
BatchSet(S, b, j) == {S[i] : i \in ((j - 1) * b + 1)..(j * b)}

(* ---- pruning -------------------------------------------------------------- *)
TopN(seqs, n) == {s \in seqs : Cardinality({t \in seqs : t > s}) < n}
BottomSeq(seqs, n) ==  (* the n lowest, ascending: deletion order of _zk.cleanup *)
  LET low == {s \in seqs : Cardinality({t \in seqs : t < s}) < n}
  IN [i \in 1..Cardinality(low) |-> CHOOSE s \in low : Cardinality({t \in low : t < s}) = i - 1]
=============================================================================
