SPECIFICATION Spec
CONSTANTS
  Keys = {"k1", "k2", "k3", "k4"}
  MaxVal = 3
CHECK_DEADLOCK FALSE
