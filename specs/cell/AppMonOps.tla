----------------------------- MODULE AppMonOps -----------------------------
(* Pure operators of the app-monitor model (C20), shared by AppMon.tla       *)
(* (model checking, exact arithmetic in units of 1/3600 token: TOK = 3600)   *)
(* and AppMonTrace.tla (recorded executions of sproc/appmonitor.py, float    *)
(* tokens logged as integer micro-tokens and scaled by 9: TOK = 9 000 000,   *)
(* so that the refill of one second, 2*count/3600 token, is an integer in    *)
(* both: (2*TOK) \div 3600 = 2 resp. 5000 units per unit of count).          *)
(*                                                                          *)
(* A monitor is [count, avail, last, policy]; policy "" = not given = fifo.  *)
(* An instance is [name, n]: n = the number after '#', the sort key.         *)
EXTENDS Naturals, Integers, Sequences, FiniteSets, TraceLib

CapOf(count, TOK) == 2 * count * TOK
PerSec(count, TOK) == ((2 * TOK) \div 3600) * count

(* `if available < max: available = min(available + rate*(now-last), max)` *)
Refilled(avail, count, last, now, TOK) ==
  IF avail < CapOf(count, TOK)
  THEN Min2(avail + PerSec(count, TOK) * (now - last), CapOf(count, TOK))
  ELSE avail

(* `suspended.get(name, 0) > now` *)
Suspended(susp, app, now) == app \in DOMAIN susp /\ susp[app] > now

Failing == {"notfound", "badrequest", "validation"}   \* suspend for DelayS
Outcomes == {"ok", "error"} \cup Failing
DelayS == 300

(* the surplus instances by policy: the `extra` lowest (fifo) / highest (lifo) n *)
LowestN(S, k) == {x \in S : Cardinality({y \in S : y.n < x.n}) < k}
HighestN(S, k) == {x \in S : Cardinality({y \in S : y.n > x.n}) < k}
SurplusSet(S, extra, policy) == IF policy = "lifo" THEN HighestN(S, extra) ELSE LowestN(S, extra)

EmptyFn == [x \in {} |-> 0]
Drop(f, k) == [x \in DOMAIN f \ {k} |-> f[x]]
Put(f, k, v) == [x \in DOMAIN f \cup {k} |-> IF x = k THEN v ELSE f[x]]

-----------------------------------------------------------------------------
(* The clauses of C20 over one evaluation:                                   *)
(*   pre   = [now, mon : app -> [count, avail, last, policy],                *)
(*            susp : app -> until, view : app -> set of instances]           *)
(*           what the monitor holds when reevaluate() starts                 *)
(*   calls = sequence of [app, op ("create"|"delete"), n, insts, o]          *)
(*           the REST calls it issued (o = what the API answered)            *)
(*   tol   = tolerance on token values (0 in the exact model)                *)
ViewOf(pre, a) == IF a \in DOMAIN pre.view THEN pre.view[a] ELSE {}
Idx(calls, a, op) == {i \in DOMAIN calls : calls[i].app = a /\ calls[i].op = op}
RECURSIVE SumN(_, _)
SumN(calls, I) == IF I = {} THEN 0
                  ELSE LET i == CHOOSE x \in I : TRUE IN calls[i].n + SumN(calls, I \ {i})
Created(calls, a) == SumN(calls, Idx(calls, a, "create"))
AppsCalled(calls) == {calls[i].app : i \in DOMAIN calls}
Monitored(pre, a) == a \in DOMAIN pre.mon
Active(pre, a) == Monitored(pre, a) /\ ~Suspended(pre.susp, a, pre.now)
Missing(pre, a) == IF Monitored(pre, a)
                   THEN Max2(pre.mon[a].count - Cardinality(ViewOf(pre, a)), 0) ELSE 0

(* tokens the evaluation may spend: the bucket after the refill at pre.now *)
BudgetOf(pre, a, TOK) ==
  LET m == pre.mon[a] IN Refilled(m.avail, m.count, m.last, pre.now, TOK)

(* C20.noOvershoot: created <= missing *)
NoOvershoot(pre, calls) ==
  \A a \in AppsCalled(calls) : Created(calls, a) <= Missing(pre, a)

(* C20.budget (step part): created <= floor(available); an exact value within *)
(* tol of an integer accepts both floors                                      *)
BudgetStep(pre, calls, TOK, tol) ==
  \A a \in AppsCalled(calls) :
     Monitored(pre, a) => Created(calls, a) <= (BudgetOf(pre, a, TOK) + tol) \div TOK

(* C20.budget (state part): 0 <= available <= 2*count *)
BudgetState(mon, TOK, tol) ==
  \A a \in DOMAIN mon : mon[a].avail >= 0 - tol /\ mon[a].avail <= CapOf(mon[a].count, TOK) + tol

(* C20.surplus: a delete names exactly the surplus, by policy; an active      *)
(* monitor with too many instances does delete                                *)
Surplus(pre, calls) ==
  /\ \A i \in DOMAIN calls : calls[i].op = "delete" /\ Monitored(pre, calls[i].app) =>
        LET a == calls[i].app
            cur == Cardinality(ViewOf(pre, a)) IN
        /\ cur > pre.mon[a].count
        /\ calls[i].insts = SurplusSet(ViewOf(pre, a), cur - pre.mon[a].count, pre.mon[a].policy)
  /\ \A a \in DOMAIN pre.mon :
        Active(pre, a) /\ Cardinality(ViewOf(pre, a)) > pre.mon[a].count
        /\ pre.mon[a].policy \in {"", "fifo", "lifo"}
        => Cardinality(Idx(calls, a, "delete")) = 1

(* C20.notBoth *)
NotBoth(calls) ==
  \A a \in AppsCalled(calls) : Idx(calls, a, "create") = {} \/ Idx(calls, a, "delete") = {}

(* C20.quiet: suspended or deleted monitors cause no call *)
Quiet(pre, calls) == \A i \in DOMAIN calls : Active(pre, calls[i].app)
=============================================================================
