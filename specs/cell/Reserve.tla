------------------------------ MODULE Reserve ------------------------------
(* C19: accepted reservations never exceed partition capacity or trait      *)
(* limits.  Next-state relation over ReserveCore's functions: from the      *)
(* empty reservation table, any sequence of Create / Update / Delete        *)
(* requests, for every partition table in PartTables.                       *)
(*                                                                          *)
(* What TLC establishes here (design level): the LOCAL admission rule --    *)
(* look only at the request's own cell+partition, only at the limited       *)
(* traits the stored reservation will carry, leave out the reservation      *)
(* being replaced -- keeps the GLOBAL invariant InvC19 over all sequences,  *)
(* including updates that move a reservation to another partition, replace  *)
(* its traits, or keep them by not mentioning them.  With Defects # {} the  *)
(* same run produces the counterexamples that are replayed on the code.     *)
EXTENDS ReserveCore

CONSTANTS
  Ids,          \* reservation ids [alloc |-> "t/a", cell |-> "c"]
  PartTables,   \* set of partition tables (see ReserveCore), values spelled:
                \* <<cell, part>> -> [cap : [cpu, memory, disk], limits : trait -> [cpu, memory, disk]]
  PartNames,    \* partitions a request may name
  TraitSets,    \* trait sets a request may carry in its traits field
  Quantities,   \* spelled demands [cpu, memory, disk] a request may carry
  Reconfs,      \* sequence of <<cell, part, spelled partition record>> the environment may
                \* write at any moment (smaller capacity, smaller / new / no limits, ...)
  MaxSteps

VARIABLES st, last, dirty, n

vars == <<st, last, dirty, n>>

(* MaxSteps < 0: unbounded (exhaustive runs; the reachable set is finite);  *)
(* MaxSteps >= 0: histories of exactly that many requests (generation)      *)
Budget == MaxSteps < 0 \/ n < MaxSteps
Tick == IF MaxSteps < 0 THEN n ELSE n + 1

(* spelled partition table -> values *)
PartVal(p) == [cap |-> ValOf(p.cap),
               limits |-> [t \in DOMAIN p.limits |-> ValOf(p.limits[t])]]
TableVal(tb) == [k \in DOMAIN tb |-> PartVal(tb[k])]

(* requests.  An Update never carries an explicitly EMPTY traits list (what  *)
(* the directory keeps in that case is outside this model, see notes).      *)
Req(part, tg, traits, qq) ==
  [part |-> part, tg |-> tg, traits |-> traits,
   cpu |-> qq.cpu, memory |-> qq.memory, disk |-> qq.disk]
Reqs == {Req(p, FALSE, {}, qq) : p \in PartNames, qq \in Quantities}
        \cup {Req(p, TRUE, ts, qq) : p \in PartNames, ts \in TraitSets, qq \in Quantities}

Init == /\ st \in {[parts |-> TableVal(tb), res |-> [j \in {} |-> 0]] : tb \in PartTables}
        /\ last = "none"
        /\ dirty = {}
        /\ n = 0

(* `dirty`: the constraints a reconfiguration left oversubscribed and no     *)
(* accepted request has vouched for since.  An accepted request vouches for *)
(* the capacity of its partition and for the limits of the traits the       *)
(* stored reservation carries.                                              *)
Vouched(s, id, r) ==
  LET e == Effective(s, id, r) IN
  {<<id.cell, e.part, "">>} \cup {<<id.cell, e.part, t>> : t \in e.traits}
StillOver(s, cs) == {c \in cs : ~Holds(s, c)}

Submit(id, r) ==
  LET out == Outcome(st, id, r) IN
  /\ last' = (IF out = "crash" THEN "crash" ELSE "none")
  /\ st' = After(st, id, r, out)
  /\ dirty' = IF out = "ok" THEN StillOver(st', dirty \ Vouched(st, id, r)) ELSE dirty
  /\ n' = Tick

Create(id, r) ==
  /\ Budget
  /\ id \notin Present(st)
  /\ Submit(id, r)

Update(id, r) ==
  /\ Budget
  /\ id \in Present(st)
  /\ (r.tg => r.traits # {})
  /\ Submit(id, r)

Delete(id) ==
  /\ Budget
  /\ id \in Present(st)
  /\ st' = Drop(st, id)
  /\ last' = "none"
  /\ dirty' = StillOver(st', dirty)
  /\ n' = Tick

Reconfigure(i) ==
  /\ Budget
  /\ st' = Reconf(st, Reconfs[i][1], Reconfs[i][2], PartVal(Reconfs[i][3]))
  /\ st' # st
  /\ last' = "none"
  /\ dirty' = StillOver(st', dirty \cup Constraints(st'))
  /\ n' = Tick

Next == \/ \E id \in Ids, r \in Reqs : Create(id, r)
        \/ \E id \in Ids, r \in Reqs : Update(id, r)
        \/ \E id \in Ids : Delete(id)
        \/ \E i \in DOMAIN Reconfs : Reconfigure(i)

Spec == Init /\ [][Next]_vars

-----------------------------------------------------------------------------
(* every constraint holds, except those a reconfiguration oversubscribed and *)
(* nothing has been admitted under since (= InvC19 when Reconfs is empty)   *)
InvReserve == \A c \in Constraints(st) \ dirty : Holds(st, c)
InvNoCrash == last # "crash"
=============================================================================
