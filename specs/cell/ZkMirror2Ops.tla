---------------------------- MODULE ZkMirror2Ops ----------------------------
(* Two-level mirror as sproc/zk2fs.py builds it for /placement: the outer     *)
(* directory's children are servers; for each the callback                    *)
(* _on_add_placement_server calls sync_children(<server>, watch_data=False)   *)
(* (mkdir + a children watch of its own), _on_del_placement_server removes    *)
(* the server's directory (shutil.rmtree).  Same conventions as ZkMirrorOps:  *)
(* one-shot watches, one FIFO queue of notifications whose callbacks read the *)
(* store when they RUN.  An inner children watch (kazoo ChildrenWatch) stops  *)
(* when its callback finds the node gone; processed_once is per process.      *)
(* A callback that raises ends the process (utils.exit_on_unhandled): writing *)
(* an instance file into a server directory that was removed meanwhile does.  *)
EXTENDS Naturals, Sequences, FiniteSets

CONSTANTS Srv, Ins, MaxVal,
          InnerWD      \* TRUE: the inner level is synchronised with watch_data=True (/endpoints/<proid>), FALSE: /placement

NoInst == [i \in Ins |-> 0]

ArmedOn(st, s) == {w \in st.iw : w.s = s /\ w.armed}
RECURSIVE NotesOf(_)
NotesOf(ws) ==
  IF ws = {} THEN <<>>
  ELSE LET w == CHOOSE x \in ws : \A y \in ws : x.n <= y.n
       IN <<[kind |-> "inner", s |-> w.s, n |-> w.n]>> \o NotesOf(ws \ {w})
Disarm(st, s) == {IF w.s = s THEN [w EXCEPT !.armed = FALSE] ELSE w : w \in st.iw}
OuterNote == <<[kind |-> "outer", s |-> "", n |-> 0]>>

(* ExistingDataWatch objects of the inner level (InnerWD): [s, i, n, ver, armed] *)
DArmedOn(st, s, i) == {w \in st.dw : w.s = s /\ w.i = i /\ w.armed}
RECURSIVE DNotesOf(_, _)
DNotesOf(ws, del) ==
  IF ws = {} THEN <<>>
  ELSE LET w == CHOOSE x \in ws : \A y \in ws : x.n <= y.n
       IN <<[kind |-> "data", s |-> w.s, i |-> w.i, n |-> w.n, del |-> del]>> \o DNotesOf(ws \ {w}, del)
DDisarm(st, s, i) == {IF w.s = s /\ w.i = i THEN [w EXCEPT !.armed = FALSE] ELSE w : w \in st.dw}

(* ---- environment (master, administrators) ---- *)
CanCreateServer(st, s) == ~st.zs[s]
DoCreateServer(st, s) ==
  [st EXCEPT !.zs[s] = TRUE, !.q = IF st.oarmed THEN @ \o OuterNote ELSE @, !.oarmed = FALSE]

CanDeleteServer(st, s) == st.zs[s] /\ st.zi[s] = NoInst
DoDeleteServer(st, s) ==      \* the node's own child watches are triggered before its parent's
  [st EXCEPT !.zs[s] = FALSE,
             !.q = (@ \o NotesOf(ArmedOn(st, s))) \o (IF st.oarmed THEN OuterNote ELSE <<>>),
             !.iw = Disarm(st, s), !.oarmed = FALSE]

CanCreateInst(st, s, i) == st.zs[s] /\ st.zi[s][i] = 0
DoCreateInst(st, s, i, v) ==
  [st EXCEPT !.zi[s][i] = v, !.zx = @ + 1, !.zm[s][i] = st.zx + 1,
             !.q = @ \o NotesOf(ArmedOn(st, s)), !.iw = Disarm(st, s)]

CanSetInst(st, s, i) == st.zs[s] /\ st.zi[s][i] # 0
DoSetInst(st, s, i, v) ==
  [st EXCEPT !.zi[s][i] = v, !.zx = @ + 1, !.zm[s][i] = st.zx + 1,
             !.q = @ \o DNotesOf(DArmedOn(st, s, i), FALSE), !.dw = DDisarm(st, s, i)]

CanDeleteInst(st, s, i) == st.zs[s] /\ st.zi[s][i] # 0
DoDeleteInst(st, s, i) ==
  [st EXCEPT !.zi[s][i] = 0, !.zm[s][i] = 0, !.zx = @ + 1,
             !.q = (@ \o DNotesOf(DArmedOn(st, s, i), TRUE)) \o NotesOf(ArmedOn(st, s)),
             !.iw = Disarm(st, s), !.dw = DDisarm(st, s, i)]

(* ---- process life ---- *)
Down(st) == [st EXCEPT !.up = FALSE, !.q = <<>>, !.iw = {}, !.dw = {}, !.oarmed = FALSE]
Die(st) == [Down(st) EXCEPT !.deaths = @ + 1]

(* ---- the inner callback: Zk2Fs._children_watch(<server>, watch_data=False) ---- *)
InnerBody(st, s) ==
  LET kids == {i \in Ins : st.zi[s][i] # 0}
      files == IF st.fd[s] THEN {i \in Ins : st.ff[s][i] # 0} ELSE {}
      sync == (kids \ files) \cup (IF s \in st.ionce THEN {} ELSE kids \cap files)
  IN IF sync # {} /\ ~st.fd[s]
     THEN Die(st)        \* rename into a directory that is not there: OSError, exit_on_unhandled
     ELSE [st EXCEPT !.ionce = @ \cup {s},
                     !.ff[s] = [i \in Ins |-> IF i \in files \ kids THEN 0
                                             ELSE IF i \in sync THEN st.zi[s][i] ELSE @[i]],
                     \* watch_data: sync_data of a synced child makes a new ExistingDataWatch (get + arm + write)
                     !.dgen[s] = [i \in Ins |-> IF InnerWD /\ i \in sync THEN @[i] + 1 ELSE @[i]],
                     !.dw = @ \cup (IF InnerWD
                                    THEN {[s |-> s, i |-> i, n |-> st.dgen[s][i] + 1, ver |-> st.zm[s][i], armed |-> TRUE] : i \in sync}
                                    ELSE {})]

(* ExistingDataWatch._get_data + Zk2Fs._data_watch for an inner node *)
DataRun(st, note) ==
  LET live == {w \in st.dw : w.s = note.s /\ w.i = note.i /\ w.n = note.n} IN
  IF live = {} THEN st
  ELSE LET w == CHOOSE x \in live : TRUE IN
       IF note.del \/ st.zi[w.s][w.i] = 0
       THEN [st EXCEPT !.dw = @ \ {w}, !.ff[w.s][w.i] = 0]           \* rm_safe: fine without the directory
       ELSE IF st.zm[w.s][w.i] = w.ver
       THEN [st EXCEPT !.dw = (@ \ {w}) \cup {[w EXCEPT !.armed = TRUE]}]
       ELSE IF ~st.fd[w.s] THEN Die(st)                               \* write into a removed directory
       ELSE [st EXCEPT !.dw = (@ \ {w}) \cup {[w EXCEPT !.armed = TRUE, !.ver = st.zm[w.s][w.i]]},
                       !.ff[w.s][w.i] = st.zi[w.s][w.i]]

InnerRun(st, note) ==
  LET live == {w \in st.iw : w.s = note.s /\ w.n = note.n} IN
  IF live = {} THEN st
  ELSE LET w == CHOOSE x \in live : TRUE IN
       IF ~st.zs[w.s] THEN [st EXCEPT !.iw = @ \ {w}]        \* NoNodeError: the watch stops
       ELSE InnerBody([st EXCEPT !.iw = (@ \ {w}) \cup {[w EXCEPT !.armed = TRUE]}], w.s)

(* _on_add_placement_server = sync_children(<server>): mkdir, a new children watch, its first call *)
RECURSIVE AddServers(_, _)
AddServers(st, todo) ==
  IF todo = {} \/ ~st.up THEN st
  ELSE LET s == CHOOSE x \in todo : TRUE
           s1 == [st EXCEPT !.fd[s] = TRUE, !.gen[s] = @ + 1,
                            !.iw = @ \cup {[s |-> s, n |-> st.gen[s] + 1, armed |-> TRUE]}]
       IN AddServers(InnerBody(s1, s), todo \ {s})

OuterRun(st) ==
  LET kids == {s \in Srv : st.zs[s]}
      files == {s \in Srv : st.fd[s]}
      removed == files \ kids
      sync == (kids \ files) \cup (IF st.oonce THEN {} ELSE kids \cap files)
      s1 == [st EXCEPT !.oarmed = TRUE, !.oonce = TRUE,
                       !.fd = [s \in Srv |-> IF s \in removed THEN FALSE ELSE @[s]],
                       !.ff = [s \in Srv |-> IF s \in removed THEN NoInst ELSE @[s]]]
  IN AddServers(s1, sync)

CanDeliver(st) == st.up /\ st.q # <<>>
DoDeliver(st) ==
  LET note == Head(st.q)
      s1 == [st EXCEPT !.q = Tail(@)] IN
  IF note.kind = "outer" THEN OuterRun(s1) ELSE IF note.kind = "data" THEN DataRun(s1, note) ELSE InnerRun(s1, note)

CanStop(st) == st.up
DoStop(st) == Down(st)
CanStart(st) == ~st.up
DoStart(st) == OuterRun([st EXCEPT !.up = TRUE, !.oonce = FALSE, !.ionce = {}])

Init0 ==
  [zs |-> [s \in Srv |-> FALSE], zi |-> [s \in Srv |-> NoInst],
   fd |-> [s \in Srv |-> FALSE], ff |-> [s \in Srv |-> NoInst],
   q |-> <<>>, oarmed |-> TRUE, oonce |-> TRUE, iw |-> {}, gen |-> [s \in Srv |-> 0],
   ionce |-> {}, up |-> TRUE, deaths |-> 0,
   zx |-> 0, zm |-> [s \in Srv |-> NoInst], dw |-> {}, dgen |-> [s \in Srv |-> NoInst]]

Proj(st) == [zs |-> st.zs, zi |-> st.zi, fd |-> st.fd, ff |-> st.ff, qlen |-> Len(st.q), up |-> st.up]
=============================================================================
