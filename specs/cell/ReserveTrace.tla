---------------------------- MODULE ReserveTrace ----------------------------
(* Trace specification for recorded executions of the real reservation API  *)
(* (harness/reserve_driver.py).  Batch file (env TRACE_FILE):               *)
(*   [traces |-> << [tid, parts, lines] >>]                                 *)
(* parts = the partition table of the trace (spelled), line 1 = the initial *)
(* (empty) directory, every later line = one Create / Update / Delete call  *)
(* with its outcome and the projection of the directory after it.           *)
(* TOTAL: every line is consumed, the logged post-state is adopted, the set *)
(* of failed named clauses is printed.                                      *)
(*                                                                          *)
(* Clauses (C19 statement, nothing stronger):                               *)
(*  C19.accept   the reservation the request stands for fits (capacity of   *)
(*               its cell+partition and every limited trait it will carry,  *)
(*               counting the OTHER reservations of that cell+partition)    *)
(*               => the call succeeded                                      *)
(*  C19.reject   it does not fit => the call raised InvalidInputError       *)
(*  C19.noCrash  the call succeeded or raised InvalidInputError, never      *)
(*               anything else                                              *)
(*  C19.inv      after an accepted request the reservation's own             *)
(*               cell+partition is within its capacity and every limited    *)
(*               trait it carries within its limit (LocalOk; by induction   *)
(*               the whole table, unless a partition was rewritten smaller) *)
(* A line may also be Reconf: the environment rewrote a partition record    *)
(* (capacity / limits); its post-state carries the new partition table.     *)
(* Oversubscription is a legal state; the clauses are unchanged by it: free *)
(* = bound - sum(others) per dimension, possibly negative, demand <= free   *)
(* in every dimension or InvalidInputError -- a zero demand does not pass a *)
(* negative remainder.                                                      *)
(*  drift.step   the directory after the call is what ReserveCore computes  *)
(*                                                                          *)
(* Beyond C19 (CellSyncCore.tla; conformance class: DRIFT, never a          *)
(* violation).  Lines may also be Sync(cell) = cellsync.sync_allocations,   *)
(* Assign / Unassign = assignment.update / delete; every post-state carries *)
(* the rest of the directory record, the /allocations document of every     *)
(* synchronised cell and the number of 'allocations' events queued.         *)
(*  ext.dir.meta         after any call the directory (spellings, rank,     *)
(*                       rank adjustment, max utilisation, assignments) is  *)
(*                       what StoreX / DropX / AssignX / UnassignX compute  *)
(*  ext.cellsync.doc     after Sync(c) the document of c has exactly one    *)
(*                       entry per reservation of c, named <tenant>/<alloc>,*)
(*                       with the reservation's partition, traits, SPELLED  *)
(*                       quantities, rank, adjustment, max utilisation and  *)
(*                       assignments (= Doc(post, c))                       *)
(*  ext.cellsync.unique  no name twice; every entry's _id is name/c         *)
(*  ext.cellsync.event   Sync(c) queues one event iff the document changed  *)
(*                       (so a second Sync is a no-op), other cells'        *)
(*                       documents and counters are untouched               *)
(*  ext.cellsync.frame   no other call touches any document or queues an    *)
(*                       event                                              *)
(*  ext.cellsync.capacity every document, fresh or stale, is within         *)
(*                       partition capacity and trait limits                *)
EXTENDS CellSyncCore, TraceLib, Json, IOUtils

Batch == JsonDeserialize(IOEnv.TRACE_FILE)
Traces == Batch.traces

VARIABLES t, i, st

Sp(j) == <<j[1], j[2]>>
QOf(j) == [cpu |-> Sp(j.cpu), memory |-> Sp(j.memory), disk |-> Sp(j.disk)]

CanonLimits(ls) ==
  [tr \in {l.trait : l \in SetOf(ls)} |->
     ValOf(QOf(CHOOSE l \in SetOf(ls) : l.trait = tr))]

CanonParts(ps) ==
  [k \in {<<p.cell, p.part>> : p \in SetOf(ps)} |->
     LET p == CHOOSE x \in SetOf(ps) : <<x.cell, x.part>> = k
     IN [cap |-> ValOf(QOf(p.cap)), limits |-> CanonLimits(p.limits)]]

IdOf(j) == [alloc |-> j.alloc, cell |-> j.cell]

CanonRes(rs) ==
  [k \in {IdOf(x) : x \in SetOf(rs)} |->
     LET x == CHOOSE y \in SetOf(rs) : IdOf(y) = k
     IN [part |-> x.part, traits |-> SetOf(x.traits), q |-> ValOf(QOf(x))]]

Canon(tr, post) == [parts |-> CanonParts(tr.parts), res |-> CanonRes(post.res)]

ReqOf(j) == [part |-> j.part, tg |-> j.tg, traits |-> SetOf(j.traits),
             cpu |-> Sp(j.cpu), memory |-> Sp(j.memory), disk |-> Sp(j.disk)]

F(name, holds) == IF holds THEN {} ELSE {name}
E(name, cond) == IF cond THEN {name} ELSE {}

-----------------------------------------------------------------------------
(* the extended view of a logged post-state                                 *)
AsgOf(j) == {<<a[1], a[2]>> : a \in SetOf(j.asg)}
MetaOf(x) == [part |-> x.part, traits |-> SetOf(x.traits), sp |-> QOf(x), rank |-> x.rank,
              adj |-> x.adj, maxu |-> x.maxu, asg |-> AsgOf(x)]
ExtDir(rs) ==
  [k \in {IdOf(x) : x \in SetOf(rs)} |->
     LET x == CHOOSE y \in SetOf(rs) : IdOf(y) = k
         m == MetaOf(x)
     IN [part |-> m.part, traits |-> m.traits, q |-> ValOf(m.sp), sp |-> m.sp, rank |-> m.rank,
         adj |-> m.adj, maxu |-> m.maxu, asg |-> m.asg]]
DocList(post, c) == (CHOOSE d \in SetOf(post.docs) : d.cell = c).entries
DocFun(es) == [nm \in {e.name : e \in SetOf(es)} |->
                 MetaOf(CHOOSE e \in SetOf(es) : e.name = nm)]
ExtOf(parts, post) ==
  [parts |-> parts,
   dir |-> ExtDir(post.res),
   docs |-> [c \in {d.cell : d \in SetOf(post.docs)} |-> DocFun(DocList(post, c))],
   ev |-> [c \in {d.cell : d \in SetOf(post.docs)} |->
             (CHOOSE e \in SetOf(post.events) : e.cell = c).n]]

XReqOf(j) == [part |-> j.part, tg |-> j.tg, traits |-> SetOf(j.traits),
              cpu |-> Sp(j.cpu), memory |-> Sp(j.memory), disk |-> Sp(j.disk),
              rank |-> j.rank, adj |-> j.adj, maxu |-> j.maxu]

ExpectedDir(px, line) ==
  LET id == IdOf(line.id) IN
  CASE line.ev \in {"Create", "Update"} ->
         AfterX(px, id, XReqOf(line.r), IF line.out = "ok" THEN "ok" ELSE "invalid").dir
    [] line.ev = "Delete" -> IF line.out = "ok" THEN DropX(px, id).dir ELSE px.dir
    [] line.ev = "Assign" ->
         IF line.out = "ok" THEN AssignX(px, id, line.r.pattern, line.r.priority).dir ELSE px.dir
    [] line.ev = "Unassign" ->
         IF line.out = "ok" THEN UnassignX(px, id, line.r.pattern).dir ELSE px.dir
    [] OTHER -> px.dir

(* pparts / qparts: the partition table before / after the line; calm: no    *)
(* partition has been rewritten in this trace so far (a document may        *)
(* legitimately exceed a capacity that was lowered after it was written)    *)
ExtFail(pparts, qparts, calm, prepost, line, post) ==
  LET px == ExtOf(pparts, prepost)
      qx == ExtOf(qparts, post)
      c == line.id.cell
  IN F("ext.dir.meta", qx.dir = ExpectedDir(px, line))
     \cup F("ext.cellsync.capacity", calm => DocWithinCapacity(qx))
     \cup (IF line.ev = "Sync"
           THEN F("ext.cellsync.doc", line.out = "ok" /\ FreshOk(qx, c) /\ FreshUnitsOk(qx, c))
                \cup F("ext.cellsync.unique",
                       c \in DOMAIN qx.docs
                       /\ LET es == DocList(post, c) IN
                          /\ Cardinality({e.name : e \in SetOf(es)}) = Len(es)
                          /\ \A e \in SetOf(es) : e.idok /\ e.idcell = c)
                \cup F("ext.cellsync.event",
                       LET want == SyncX(px, c) IN qx.ev = want.ev
                         /\ \A k \in DOMAIN px.docs \ {c} : k \in DOMAIN qx.docs /\ qx.docs[k] = px.docs[k])
           ELSE F("ext.cellsync.frame", qx.docs = px.docs /\ qx.ev = px.ev))

ExtEx(pparts, prepost, line, post) ==
  LET px == ExtOf(pparts, prepost)
      c == line.id.cell
  IN IF line.ev # "Sync" THEN E("ext.assign", line.ev \in {"Assign", "Unassign"})
     ELSE E("ext.sync", TRUE)
          \cup E("ext.sync.noop", ~SyncChanges(px, c))
          \cup E("ext.sync.removes", c \in DOMAIN px.docs
                                     /\ DOMAIN px.docs[c] \ {id.alloc : id \in IdsOfCell(px, c)} # {})
          \cup E("ext.sync.updates", c \in DOMAIN px.docs /\ SyncChanges(px, c))

RequestVerdict(pre, line, post) ==
  LET id == IdOf(line.id)
      r == ReqOf(line.r)
      fits == Fits(pre, id, r)
      out == line.out
  IN [fail |-> F("C19.accept", fits => out = "ok")
               \cup F("C19.reject", ~fits => out = "invalid")
               \cup F("C19.noCrash", out \in {"ok", "invalid"})
               \cup F("C19.inv", out = "ok" => LocalOk(post, id))
               \cup F("drift.step", post = After(pre, id, r, IF out = "ok" THEN "ok" ELSE "invalid")),
      ex |-> E("C19", Others(pre, id, r.part) # {})
             \cup E("trait", SharesLimitedTrait(pre, id, r))
             \cup E("replace", id \in Present(pre) /\ pre.res[id].part = r.part)
             \cup E("accept", fits) \cup E("reject", ~fits)
             \cup E("oversub", OverDims(pre, id, r) # {})
             \cup E("oversub.zero", ZeroIntoOver(pre, id, r))]

Verdict(pre, line, post) ==
  IF line.ev = "Delete"
  THEN [fail |-> F("drift.step", line.out = "ok" /\ post = Drop(pre, IdOf(line.id))), ex |-> {}]
  ELSE IF line.ev \in {"Sync", "Assign", "Unassign"}
  THEN [fail |-> F("drift.step", post = pre), ex |-> {}]      \* nothing admission looks at moves
  ELSE IF line.ev = "Reconf"      \* the environment rewrote a partition record
  THEN [fail |-> F("drift.step",
                   post = Reconf(pre, line.id.cell, line.r.part,
                                 [cap |-> ValOf(QOf(line.r.cap)), limits |-> CanonLimits(line.r.limits)])),
        ex |-> E("reconf", TRUE) \cup E("reconf.over", ~InvC19(post))]
  ELSE RequestVerdict(pre, line, post)

PartsAfter(pre, line) ==
  IF line.ev = "Reconf" THEN CanonParts(line.post.parts) ELSE pre.parts
Calm(tr, upto) == \A j \in 1..upto : tr.lines[j].ev # "Reconf"

Init == /\ t \in DOMAIN Traces
        /\ i = 1
        /\ st = Canon(Traces[t], Traces[t].lines[1].post)

Next == /\ i < Len(Traces[t].lines)
        /\ i' = i + 1
        /\ t' = t
        /\ st' = [parts |-> PartsAfter(st, Traces[t].lines[i + 1]),
                  res |-> CanonRes(Traces[t].lines[i + 1].post.res)]
        /\ LET v == Verdict(st, Traces[t].lines[i + 1], st')
               xf == ExtFail(st.parts, st'.parts, Calm(Traces[t], i + 1), Traces[t].lines[i].post,
                             Traces[t].lines[i + 1], Traces[t].lines[i + 1].post)
               xe == ExtEx(st.parts, Traces[t].lines[i].post, Traces[t].lines[i + 1],
                           Traces[t].lines[i + 1].post)
           IN PrintT(ToJson([tid |-> Traces[t].tid, i |-> i, fail |-> v.fail \cup xf,
                             ex |-> v.ex \cup xe]))

Spec == Init /\ [][Next]_<<t, i, st>>
=============================================================================
