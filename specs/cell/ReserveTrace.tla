---------------------------- MODULE ReserveTrace ----------------------------
(* Trace specification for recorded executions of the real reservation API  *)
(* (harness/reserve_driver.py).  Batch file (env TRACE_FILE):               *)
(*   [traces |-> << [tid, parts, lines] >>]                                 *)
(* parts = the partition table of the trace (spelled), line 1 = the initial *)
(* (empty) directory, every later line = one Create / Update / Delete call  *)
(* with its outcome and the projection of the directory after it.           *)
(* TOTAL: every line is consumed, the logged post-state is adopted, the set *)
(* of failed named clauses is printed.                                      *)
(*                                                                          *)
(* Clauses (C19 statement, nothing stronger):                               *)
(*  C19.accept   the reservation the request stands for fits (capacity of   *)
(*               its cell+partition and every limited trait it will carry,  *)
(*               counting the OTHER reservations of that cell+partition)    *)
(*               => the call succeeded                                      *)
(*  C19.reject   it does not fit => the call raised InvalidInputError       *)
(*  C19.noCrash  the call succeeded or raised InvalidInputError, never      *)
(*               anything else                                              *)
(*  C19.inv      after an accepted request every cell+partition is within   *)
(*               its capacity and every limited trait within its limits     *)
(*  drift.step   the directory after the call is what ReserveCore computes  *)
EXTENDS ReserveCore, TraceLib, Json, IOUtils

Batch == JsonDeserialize(IOEnv.TRACE_FILE)
Traces == Batch.traces

VARIABLES t, i, st

Sp(j) == <<j[1], j[2]>>
QOf(j) == [cpu |-> Sp(j.cpu), memory |-> Sp(j.memory), disk |-> Sp(j.disk)]

CanonLimits(ls) ==
  [tr \in {l.trait : l \in SetOf(ls)} |->
     ValOf(QOf(CHOOSE l \in SetOf(ls) : l.trait = tr))]

CanonParts(ps) ==
  [k \in {<<p.cell, p.part>> : p \in SetOf(ps)} |->
     LET p == CHOOSE x \in SetOf(ps) : <<x.cell, x.part>> = k
     IN [cap |-> ValOf(QOf(p.cap)), limits |-> CanonLimits(p.limits)]]

IdOf(j) == [alloc |-> j.alloc, cell |-> j.cell]

CanonRes(rs) ==
  [k \in {IdOf(x) : x \in SetOf(rs)} |->
     LET x == CHOOSE y \in SetOf(rs) : IdOf(y) = k
     IN [part |-> x.part, traits |-> SetOf(x.traits), q |-> ValOf(QOf(x))]]

Canon(tr, post) == [parts |-> CanonParts(tr.parts), res |-> CanonRes(post.res)]

ReqOf(j) == [part |-> j.part, tg |-> j.tg, traits |-> SetOf(j.traits),
             cpu |-> Sp(j.cpu), memory |-> Sp(j.memory), disk |-> Sp(j.disk)]

F(name, holds) == IF holds THEN {} ELSE {name}
E(name, cond) == IF cond THEN {name} ELSE {}

RequestVerdict(pre, line, post) ==
  LET id == IdOf(line.id)
      r == ReqOf(line.r)
      fits == Fits(pre, id, r)
      out == line.out
  IN [fail |-> F("C19.accept", fits => out = "ok")
               \cup F("C19.reject", ~fits => out = "invalid")
               \cup F("C19.noCrash", out \in {"ok", "invalid"})
               \cup F("C19.inv", out = "ok" => InvC19(post))
               \cup F("drift.step", post = After(pre, id, r, IF out = "ok" THEN "ok" ELSE "invalid")),
      ex |-> E("C19", Others(pre, id, r.part) # {})
             \cup E("trait", SharesLimitedTrait(pre, id, r))
             \cup E("replace", id \in Present(pre) /\ pre.res[id].part = r.part)
             \cup E("accept", fits) \cup E("reject", ~fits)]

Verdict(pre, line, post) ==
  IF line.ev = "Delete"
  THEN [fail |-> F("drift.step", line.out = "ok" /\ post = Drop(pre, IdOf(line.id))), ex |-> {}]
  ELSE RequestVerdict(pre, line, post)

Init == /\ t \in DOMAIN Traces
        /\ i = 1
        /\ st = Canon(Traces[t], Traces[t].lines[1].post)

Next == /\ i < Len(Traces[t].lines)
        /\ i' = i + 1
        /\ t' = t
        /\ st' = Canon(Traces[t], Traces[t].lines[i + 1].post)
        /\ LET v == Verdict(st, Traces[t].lines[i + 1], st') IN
           PrintT(ToJson([tid |-> Traces[t].tid, i |-> i, fail |-> v.fail, ex |-> v.ex]))

Spec == Init /\ [][Next]_<<t, i, st>>
=============================================================================
