---------------------------- MODULE AppMonTrace ----------------------------
(* Trace specification for executions of the REAL app monitor                *)
(* (treadmill.sproc.appmonitor._run_sync / reevaluate) recorded by           *)
(* harness/appmon_driver.py (C20).  Batch file (env TRACE_FILE):             *)
(*   [traces |-> << [tid, lines] >>]; line 1 = the initial state; every      *)
(* later line = one environment event or one evaluation (ev "Evaluate",      *)
(* with the REST calls it issued and what the API answered) and the          *)
(* projected state after it.  TOTAL: every line is consumed, the logged      *)
(* post-state is adopted, the failed clauses are printed.                    *)
(*                                                                          *)
(* Numbers: seconds are integers; the code's float tokens are logged as      *)
(* integer micro-tokens int(round(x*1e6)) and scaled by 9 here, so that one  *)
(* second of refill (2*count/3600 token) is the integer 5000*count:          *)
(* TOK = 9 000 000 units per token.  TOL = 18 units = 2 micro-tokens (1e-6   *)
(* of float tolerance + the rounding of the two logged values).  When the    *)
(* exact value is within TOL of an integer number of tokens both floors are  *)
(* accepted.                                                                 *)
(*                                                                          *)
(* Besides the logged state the spec carries its OWN token bucket per        *)
(* monitor (gb): full at every (re)configuration, refilled 2*count per hour  *)
(* up to 2*count at every evaluation in which the monitor is not suspended,  *)
(* debited by what an accepted POST created.  C20.budget is judged against   *)
(* this bucket, not against the code's bookkeeping (a monitor that forgets   *)
(* to debit would otherwise always be "within budget").                      *)
(*                                                                          *)
(*  C20.noOvershoot  created <= missing (target - what the monitor sees)     *)
(*  C20.budget       created <= floor(gb after refill); the code's available *)
(*                   is never negative and never above 2*count               *)
(*  C20.surplus      a delete names exactly the surplus, the lowest (fifo,   *)
(*                   default) or highest (lifo) sequence numbers, and an     *)
(*                   active monitor with a surplus issues it                 *)
(*  C20.notBoth      never a create and a delete for one application         *)
(*  C20.quiet        no call for a deleted monitor, nor for one in its       *)
(*                   back-off period as the OBSERVER knows it (gs: handled   *)
(*                   failure at t => until t + 300 s), not the code's dict   *)
(*  drift.step       post-state / calls = what the model computes            *)
(*  ext.appmon.*     extension beyond C20 (conformance class, reported as    *)
(*                   DRIFT): the map reevaluate() returns and publishes in   *)
(*                   the /app-monitors node, and what get_appmonitor shows   *)
EXTENDS AppMonOps, Json, IOUtils

Batch == JsonDeserialize(IOEnv.TRACE_FILE)
Traces == Batch.traces

VARIABLES t, i, st, gb, gs

TOK == 9000000
TOL == 18

CanonInsts(seq) == {[name |-> seq[x].name, n |-> seq[x].n] : x \in DOMAIN seq}
CanonMon(j) == [count |-> j.count, avail |-> j.avail * 9, last |-> j.last,
                policy |-> j.policy, rate |-> j.rate]
Canon(js) == [now |-> js.now,
              mon |-> [a \in DOMAIN js.mon |-> CanonMon(js.mon[a])],
              susp |-> [a \in DOMAIN js.susp |-> js.susp[a]],
              view |-> [a \in DOMAIN js.view |-> CanonInsts(js.view[a])],
              zk |-> [a \in DOMAIN js.zk |-> CanonInsts(js.zk[a])],
              pub |-> [a \in DOMAIN js.pub |-> js.pub[a]],
              waited |-> [a \in DOMAIN js.waited |-> js.waited[a]],
              reader |-> [a \in DOMAIN js.reader |-> js.reader[a]]]
CanonCalls(line) == [x \in DOMAIN line.calls |->
                       [app |-> line.calls[x].app, op |-> line.calls[x].op, n |-> line.calls[x].n,
                        insts |-> CanonInsts(line.calls[x].insts), o |-> line.calls[x].o]]

F(name, holds) == IF holds THEN {} ELSE {name}
E(name, cond) == IF cond THEN {name} ELSE {}
Near(x, y) == x - y <= TOL /\ y - x <= TOL

(* what the clauses of C20 are judged against.  The instances are the children  *)
(* of /scheduled (`zk`), NOT the monitor's own grouping of them (`view`,         *)
(* state['scheduled'] built by _scheduled_watch): zkfake delivers watches        *)
(* synchronously, so at every evaluation the count the monitor acts on must be   *)
(* the number of scheduled instances of the application - a watch that groups    *)
(* them wrongly makes the monitor overshoot / under-delete.  (drift.step models  *)
(* the code on its own view and reports view # zk separately.)                   *)
PreOf(s) == [now |-> s.now, mon |-> s.mon, susp |-> s.susp, view |-> s.zk]
ViewPre(s) == [now |-> s.now, mon |-> s.mon, susp |-> s.susp, view |-> s.view]
(* the same, with the specification's own buckets in place of the code's *)
GhostPre(s, g) ==
  [now |-> s.now, susp |-> s.susp, view |-> s.zk,
   mon |-> [a \in DOMAIN s.mon |->
              IF a \in DOMAIN g
              THEN [s.mon[a] EXCEPT !.avail = g[a].avail, !.last = g[a].last, !.count = g[a].count]
              ELSE s.mon[a]]]

(* ---- the specification's own bucket ---------------------------------------- *)
OkCreated(calls, a) ==
  SumN(calls, {x \in Idx(calls, a, "create") : calls[x].o = "ok"})

GhostAfter(g, pre, line, post) ==
  IF line.ev = "Configure"
  THEN IF ~line.changed /\ line.app \in DOMAIN g
       THEN g        \* update_appmonitor writes nothing when the node content stays the same
       ELSE Put(g, line.app, [avail |-> CapOf(line.count, TOK), last |-> pre.now,
                              count |-> line.count])
  ELSE IF line.ev = "DeleteMonitor" THEN Drop(g, line.app)
  ELSE IF line.ev = "Evaluate"
  THEN LET calls == CanonCalls(line) IN
       \* refilled at every evaluation, suspended or not: capping commutes with waiting
       \* (min(min(x + r1, cap) + r2, cap) = min(x + r1 + r2, cap)), so this is the bucket
       \* of the code without consulting its `suspended` dict
       [a \in DOMAIN g |->
          [g[a] EXCEPT !.avail = Refilled(g[a].avail, g[a].count, g[a].last, pre.now, TOK)
                                 - OkCreated(calls, a) * TOK,
                       !.last = pre.now]]
  ELSE g

(* ---- the observer's back-off periods ----------------------------------------- *)
(* From the driver's record alone: a create answered NotFound / BadRequest /      *)
(* Validation at time t suspends that monitor until t + 300 s; deleting the       *)
(* monitor ends it.  C20.quiet is judged against this map, NOT against the code's *)
(* own `suspended` dict (a monitor that forgets its suspensions would otherwise   *)
(* never be "suspended").                                                          *)
SuspAfter(g, pre, line) ==
  IF line.ev = "DeleteMonitor" THEN (IF line.app \in DOMAIN g THEN Drop(g, line.app) ELSE g)
  ELSE IF line.ev = "Evaluate" /\ "exc" \notin DOMAIN line
  THEN LET calls == CanonCalls(line)
           failing == {calls[x].app : x \in {y \in DOMAIN calls :
                                               calls[y].op = "create" /\ calls[y].o \in Failing}}
           live == {a \in DOMAIN g : g[a] > pre.now}
       IN [a \in live \cup failing |-> IF a \in failing THEN pre.now + DelayS ELSE g[a]]
  ELSE g
(* suspended by the observer's or by the code's account: "must act" is demanded   *)
(* only of a monitor that neither considers suspended                              *)
EitherSusp(g, susp) ==
  [a \in DOMAIN g \cup DOMAIN susp |->
     Max2(IF a \in DOMAIN g THEN g[a] ELSE 0, IF a \in DOMAIN susp THEN susp[a] ELSE 0)]

(* ---- what the model computes for one evaluation ---------------------------- *)
AppExplained(pre, calls, post, a) ==
  LET m == pre.mon[a]
      act == Active(pre, a)
      cur == Cardinality(ViewOf(pre, a))
      ex == IF act THEN Refilled(m.avail, m.count, m.last, pre.now, TOK) ELSE m.avail
      needed == m.count - cur
      lo == Min2(needed, (ex - TOL) \div TOK)
      hi == Min2(needed, (ex + TOL) \div TOK)
      cr == Idx(calls, a, "create")
      dl == Idx(calls, a, "delete")
      n == Created(calls, a)
      spent == OkCreated(calls, a)
      failed == \E x \in cr : calls[x].o \in Failing
  IN
  /\ a \in DOMAIN post.mon
  /\ post.mon[a].count = m.count /\ post.mon[a].policy = m.policy /\ post.mon[a].rate = m.rate
  /\ post.mon[a].last = (IF act THEN pre.now ELSE m.last)
  /\ Near(post.mon[a].avail, ex - spent * TOK)
  /\ IF act /\ needed > 0 /\ hi > 0
     THEN \/ Cardinality(cr) = 1 /\ n \in {lo, hi} /\ n > 0
          \/ cr = {} /\ lo <= 0
     ELSE cr = {}
  /\ IF act /\ cur > m.count /\ m.policy \in {"", "fifo", "lifo"}
     THEN /\ Cardinality(dl) = 1
          /\ \A x \in dl : calls[x].insts = SurplusSet(ViewOf(pre, a), cur - m.count, m.policy)
     ELSE dl = {}
  /\ (a \in DOMAIN post.susp) = (failed \/ Suspended(pre.susp, a, pre.now))
  /\ (a \in DOMAIN post.susp =>
        post.susp[a] = (IF failed THEN pre.now + DelayS ELSE pre.susp[a]))

EvalExplained(pre, calls, post) ==
  /\ post.now = pre.now /\ post.view = pre.view /\ post.zk = pre.zk
  /\ DOMAIN post.mon = DOMAIN pre.mon
  /\ DOMAIN post.susp \subseteq DOMAIN pre.mon
  /\ AppsCalled(calls) \subseteq DOMAIN pre.mon
  /\ \A a \in DOMAIN pre.mon : AppExplained(pre, calls, post, a)

EnvExplained(pre, line, post) ==
  LET same(f) == post[f] = pre[f] IN
  CASE line.ev = "Tick" ->
         post.now = pre.now + line.dt /\ same("mon") /\ same("susp") /\ same("view") /\ same("zk")
    [] line.ev = "Configure" ->
         LET a == line.app
             nochange == a \in DOMAIN pre.mon /\ ~line.changed IN
         /\ same("now") /\ same("susp") /\ same("view") /\ same("zk")
         /\ DOMAIN post.mon = DOMAIN pre.mon \cup {a}
         /\ \A b \in DOMAIN pre.mon \ {a} : post.mon[b] = pre.mon[b]
         /\ IF nochange THEN post.mon[a] = pre.mon[a]
            ELSE post.mon[a] = [count |-> line.count, avail |-> CapOf(line.count, TOK),
                                last |-> pre.now,
                                \* '' = not given: an existing monitor keeps its policy
                                policy |-> IF line.policy = "" /\ a \in DOMAIN pre.mon
                                           THEN pre.mon[a].policy ELSE line.policy,
                                rate |-> 2 * line.count * 1000000]
    [] line.ev = "DeleteMonitor" ->
         /\ same("now") /\ same("susp") /\ same("view") /\ same("zk")
         /\ post.mon = Drop(pre.mon, line.app)
    [] OTHER ->   \* instances come and go: the monitor's view follows /scheduled
         /\ same("now") /\ same("susp") /\ same("mon")
         /\ post.view = post.zk

(* ---- extension: the published bookkeeping (ext.appmon.*, conformance class) -- *)
(* pre.waited is `last_waited` of this evaluation.  A monitor is rate limited  *)
(* when it is active, misses instances and issued no create (allowed <= 0).   *)
ExtLimited(pre, calls) ==
  {a \in DOMAIN pre.mon : Active(ViewPre(pre), a) /\ Missing(ViewPre(pre), a) > 0
                          /\ Idx(calls, a, "create") = {}}
ExtModified(pre, calls) ==
  \/ \E a \in DOMAIN pre.susp : a \notin DOMAIN pre.mon
  \/ \E a \in DOMAIN pre.mon : a \in DOMAIN pre.susp /\ pre.susp[a] <= pre.now
  \/ \E a \in ExtLimited(pre, calls) : a \notin DOMAIN pre.waited
  \/ \E x \in DOMAIN calls :
        \/ (calls[x].op = "create" /\ calls[x].o = "ok" /\ calls[x].app \in DOMAIN pre.waited)
        \/ (calls[x].op = "create" /\ calls[x].o \in Failing)
        \/ (calls[x].op = "delete" /\ calls[x].o = "ok")
(* `now + int((1 - available) / rate)` with the refilled bucket, +- TOL *)
ExtWaitOk(pre, a, v) ==
  LET m == pre.mon[a]
      ex == Refilled(m.avail, m.count, m.last, pre.now, TOK)
      lo == (TOK - ex - TOL) \div PerSec(m.count, TOK)
      hi == (TOK - ex + TOL) \div PerSec(m.count, TOK)
  IN v >= pre.now + lo /\ v <= pre.now + hi
ExtWaited(pre, calls, post) ==
  /\ DOMAIN post.waited = ExtLimited(pre, calls) \cup DOMAIN post.susp
  /\ \A a \in DOMAIN post.waited :
        IF a \in DOMAIN post.susp THEN post.waited[a] = post.susp[a]
        ELSE ExtWaitOk(pre, a, post.waited[a])
ExtPublished(pre, calls, post) ==
  post.pub = (IF ExtModified(pre, calls) THEN post.waited ELSE pre.pub)
ExtSuspensions(post) ==
  \A a \in DOMAIN post.susp : a \in DOMAIN post.pub /\ post.pub[a] = post.susp[a]
ExtCovered(post) == DOMAIN post.waited \subseteq DOMAIN post.pub
(* what masterapi.get_appmonitor shows as suspend_until (-1 = None) *)
ExtReader(post) ==
  /\ DOMAIN post.reader = DOMAIN post.mon
  /\ \A a \in DOMAIN post.reader :
        post.reader[a] = (IF a \in DOMAIN post.pub THEN post.pub[a] ELSE 0 - 1)

Verdict(pre, g, gsu, line, post) ==
  IF "exc" \in DOMAIN line THEN [fail |-> {"exc"}, ex |-> {}]
  ELSE IF line.ev = "Evaluate" THEN
    LET calls == CanonCalls(line)
        p == PreOf(pre)
        gp == GhostPre(pre, g) IN
    [fail |-> F("C20.noOvershoot", NoOvershoot(p, calls))
              \cup F("C20.budget", BudgetStep(gp, calls, TOK, TOL) /\ BudgetState(post.mon, TOK, TOL))
              \cup F("C20.surplus", Surplus([p EXCEPT !.susp = EitherSusp(gsu, pre.susp)], calls))
              \cup F("C20.notBoth", NotBoth(calls))
              \cup F("C20.quiet", Quiet([p EXCEPT !.susp = gsu], calls))
              \cup F("drift.step", EvalExplained(pre, calls, post))
              \cup F("ext.appmon.waited", ExtWaited(pre, calls, post))
              \cup F("ext.appmon.published", ExtPublished(pre, calls, post))
              \cup F("ext.appmon.suspensions", ExtSuspensions(post))
              \cup F("ext.appmon.covered", ExtCovered(post))
              \cup F("ext.appmon.reader", ExtReader(post)),
     ex |-> E("C20", calls # <<>>)
            \cup E("ext.rewritten", post.pub # pre.pub)
            \cup E("ext.waiting", ExtLimited(pre, calls) # {})
            \cup E("ext.stale", \E a \in DOMAIN post.pub : a \notin DOMAIN post.waited)
            \cup E("create", \E x \in DOMAIN calls : calls[x].op = "create")
            \cup E("delete", \E x \in DOMAIN calls : calls[x].op = "delete")
            \cup E("rateLimited", \E a \in DOMAIN pre.mon : Active(p, a) /\
                     Created(calls, a) < Missing(p, a))
            \cup E("apiFailure", \E x \in DOMAIN calls : calls[x].o # "ok")
            \cup E("suspendedSkipped", \E a \in DOMAIN pre.mon : ~Active(p, a) /\
                     Cardinality(ViewOf(p, a)) # pre.mon[a].count)
            \cup E("backoffObserved", \E a \in DOMAIN pre.mon : Suspended(gsu, a, pre.now) /\
                     Cardinality(ViewOf(p, a)) # pre.mon[a].count)
            \cup E("deletedWhileSuspended", \E a \in DOMAIN pre.susp : a \notin DOMAIN pre.mon)
            \cup E("lifo", \E x \in DOMAIN calls : calls[x].op = "delete" /\
                     calls[x].app \in DOMAIN pre.mon /\ pre.mon[calls[x].app].policy = "lifo")
            \cup E("nearInteger", \E a \in DOMAIN pre.mon : Active(p, a) /\
                     LET b == BudgetOf(gp, a, TOK) IN (b + TOL) \div TOK # (b - TOL) \div TOK)]
  ELSE
    [fail |-> F("drift.step", EnvExplained(pre, line, post))
              \cup F("C20.budget", BudgetState(post.mon, TOK, TOL))
              \cup F("ext.appmon.published", post.pub = pre.pub /\ post.waited = pre.waited)
              \cup F("ext.appmon.reader", ExtReader(post)),
     ex |-> {}]

Ghost0(s) == [a \in DOMAIN s.mon |-> [avail |-> s.mon[a].avail, last |-> s.mon[a].last,
                                      count |-> s.mon[a].count]]

Init == /\ t \in DOMAIN Traces
        /\ i = 1
        /\ st = Canon(Traces[t].lines[1].post)
        /\ gb = Ghost0(Canon(Traces[t].lines[1].post))
        /\ gs = Canon(Traces[t].lines[1].post).susp

Next == /\ i < Len(Traces[t].lines)
        /\ i' = i + 1
        /\ t' = t
        /\ st' = Canon(Traces[t].lines[i + 1].post)
        /\ gb' = GhostAfter(gb, st, Traces[t].lines[i + 1], st')
        /\ gs' = SuspAfter(gs, st, Traces[t].lines[i + 1])
        /\ LET v == Verdict(st, gb, gs, Traces[t].lines[i + 1], st') IN
           PrintT(ToJson([tid |-> Traces[t].tid, i |-> i, fail |-> v.fail, ex |-> v.ex]))

Spec == Init /\ [][Next]_<<t, i, st, gb, gs>>
=============================================================================
