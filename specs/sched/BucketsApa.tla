---------------------------- MODULE BucketsApa ----------------------------
(* Typed, recursion-free restatement of Buckets.tla for Apalache: the        *)
(* pruning-soundness invariant is INDUCTIVE, i.e. holds for histories of any *)
(* length (TLC checks Buckets.tla only up to MaxOps operations).             *)
EXTENDS Integers, FiniteSets, Apalache

Racks == {"r1", "r2"}
Servers == {"s1", "s2", "s3"}
Dims == {1, 2}
MaxCap == 2

\* @type: Str => Str;
RackOf(s) == IF s = "s3" THEN "r2" ELSE "r1"

VARIABLES
  \* @type: Str -> Bool;
  inTree,
  \* @type: Str -> Bool;
  up,
  \* @type: Str -> (Int -> Int);
  cap,
  \* @type: Str -> (Int -> Int);
  free,
  \* @type: Str -> (Int -> Int);
  rack,
  \* @type: Int -> Int;
  cell

\* @type: Int -> Int;
Zero == [d \in Dims |-> 0]
\* @type: (Int -> Int, Int -> Int) => (Int -> Int);
MaxV(u, v) == [d \in Dims |-> IF u[d] >= v[d] THEN u[d] ELSE v[d]]
\* @type: (Int -> Int, Int -> Int) => Bool;
AllLt(u, v) == \A d \in Dims : u[d] < v[d]
\* @type: (Int -> Int, Int -> Int) => Bool;
AnyLt(u, v) == \E d \in Dims : u[d] < v[d]

Vecs == [Dims -> 0..MaxCap]

\* max over the up children of rack r, given membership/up/free maps
\* @type: (Str, Str -> Bool, Str -> Bool, Str -> (Int -> Int)) => (Int -> Int);
MaxKids(r, it, u, fr) ==
  [d \in Dims |->
     LET vals == {fr[s][d] : s \in {x \in Servers : RackOf(x) = r /\ it[x] /\ u[x]}} IN
     IF vals = {} THEN 0 ELSE CHOOSE m \in vals : \A w \in vals : w <= m]

\* @type: (Str -> (Int -> Int)) => (Int -> Int);
MaxRacks(rk) ==
  [d \in Dims |-> LET vals == {rk[r][d] : r \in Racks} IN
                  CHOOSE m \in vals : \A w \in vals : w <= m]

\* @type: (Str -> (Int -> Int), Int -> Int, Int -> Int, Bool) => (Int -> Int);
CellDown(rk, c, prev, hasPrev) ==
  IF hasPrev /\ AllLt(prev, c) THEN c
  ELSE LET new == MaxRacks(rk) IN IF AnyLt(new, c) THEN new ELSE c

\* rack value after adjust_capacity_down
\* @type: (Str, Str -> Bool, Str -> Bool, Str -> (Int -> Int), Str -> (Int -> Int), Int -> Int) => (Int -> Int);
RackDownVal(r, it, u, fr, rk, prev) ==
  IF \A s \in Servers : ~(RackOf(s) = r /\ it[s]) THEN Zero
  ELSE IF AllLt(prev, rk[r]) THEN rk[r]
  ELSE LET new == MaxKids(r, it, u, fr) IN IF AnyLt(new, rk[r]) THEN new ELSE rk[r]

DownStep(r, it, u, fr, prev) ==
  LET nv == RackDownVal(r, it, u, fr, rack, prev)
      rk1 == [rack EXCEPT ![r] = nv]
      empty == \A s \in Servers : ~(RackOf(s) = r /\ it[s]) IN
  /\ rack' = rk1
  /\ cell' = IF nv = rack[r] THEN cell
             ELSE CellDown(rk1, cell, rack[r], ~empty)

UpStep(r, v) ==
  LET rk1 == [rack EXCEPT ![r] = MaxV(@, v)] IN
  /\ rack' = rk1
  /\ cell' = MaxV(cell, rk1[r])

Init ==
  /\ inTree = [s \in Servers |-> FALSE] /\ up = [s \in Servers |-> TRUE]
  /\ cap = [s \in Servers |-> Zero] /\ free = [s \in Servers |-> Zero]
  /\ rack = [r \in Racks |-> Zero] /\ cell = Zero

AddServer(s, c) ==
  /\ ~inTree[s]
  /\ inTree' = [inTree EXCEPT ![s] = TRUE] /\ up' = [up EXCEPT ![s] = TRUE]
  /\ cap' = [cap EXCEPT ![s] = c] /\ free' = [free EXCEPT ![s] = c]
  /\ UpStep(RackOf(s), c)

RemoveServer(s) ==
  /\ inTree[s]
  /\ inTree' = [inTree EXCEPT ![s] = FALSE] /\ up' = [up EXCEPT ![s] = TRUE]
  /\ cap' = [cap EXCEPT ![s] = Zero] /\ free' = [free EXCEPT ![s] = Zero]
  /\ LET r == RackOf(s)
         rkU == [rack EXCEPT ![r] = MaxV(@, cap[s])]
         cU == MaxV(cell, rkU[r])
         it == [inTree EXCEPT ![s] = FALSE]
         nv == RackDownVal(r, it, up, free, rkU, cap[s])
         rk1 == [rkU EXCEPT ![r] = nv]
         empty == \A x \in Servers : ~(RackOf(x) = r /\ it[x]) IN
     /\ rack' = rk1
     /\ cell' = IF nv = rkU[r] THEN cU ELSE CellDown(rk1, cU, rkU[r], ~empty)

SetUp(s) ==
  /\ inTree[s] /\ ~up[s]
  /\ up' = [up EXCEPT ![s] = TRUE]
  /\ UNCHANGED <<inTree, cap, free>>
  /\ UpStep(RackOf(s), free[s])

SetNotUp(s) ==
  /\ inTree[s] /\ up[s]
  /\ up' = [up EXCEPT ![s] = FALSE]
  /\ UNCHANGED <<inTree, cap, free>>
  /\ DownStep(RackOf(s), inTree, [up EXCEPT ![s] = FALSE], free, free[s])

Put(s, dem) ==
  /\ inTree[s] /\ dem # Zero /\ \A d \in Dims : dem[d] <= free[s][d]
  /\ free' = [free EXCEPT ![s] = [d \in Dims |-> free[s][d] - dem[d]]]
  /\ UNCHANGED <<inTree, up, cap>>
  /\ DownStep(RackOf(s), inTree, up, [free EXCEPT ![s] = [d \in Dims |-> free[s][d] - dem[d]]], free[s])

Remove(s, dem) ==
  /\ inTree[s] /\ dem # Zero /\ \A d \in Dims : free[s][d] + dem[d] <= cap[s][d]
  /\ free' = [free EXCEPT ![s] = [d \in Dims |-> free[s][d] + dem[d]]]
  /\ UNCHANGED <<inTree, up, cap>>
  /\ UpStep(RackOf(s), [d \in Dims |-> free[s][d] + dem[d]])

Next == \/ \E s \in Servers, c \in Vecs : AddServer(s, c)
        \/ \E s \in Servers : RemoveServer(s)
        \/ \E s \in Servers : SetUp(s)
        \/ \E s \in Servers : SetNotUp(s)
        \/ \E s \in Servers, d \in Vecs : Put(s, d)
        \/ \E s \in Servers, d \in Vecs : Remove(s, d)

TypeOK ==
  /\ inTree \in [Servers -> BOOLEAN] /\ up \in [Servers -> BOOLEAN]
  /\ cap \in [Servers -> Vecs] /\ free \in [Servers -> Vecs]
  /\ rack \in [Racks -> Vecs] /\ cell \in Vecs

Sound ==
  \A s \in Servers : (inTree[s] /\ up[s]) =>
    \A d \in Dims : rack[RackOf(s)][d] >= free[s][d] /\ cell[d] >= free[s][d]

IndInv ==
  /\ TypeOK
  /\ \A s \in Servers : \A d \in Dims : free[s][d] <= cap[s][d]
  /\ \A s \in Servers : (inTree[s] /\ up[s]) => \A d \in Dims : rack[RackOf(s)][d] >= free[s][d]
  /\ \A r \in Racks : \A d \in Dims : cell[d] >= rack[r][d]

IndInit == IndInv
=============================================================================
