------------------------------ MODULE RebootOps ------------------------------
(* Beyond the listed properties (DESIGN.md section 5): how a partition hands   *)
(* out reboot dates (scheduler/__init__.py Partition / RebootBucket), i.e.     *)
(* where `valid_until` - the date C03's lease clause compares with - comes     *)
(* from.  Times are seconds relative to the midnight the history starts at;    *)
(* the default schedule has one bucket per day at 23:59:59.                    *)
(* Pure successor functions (used by the trace spec on recorded operations of  *)
(* the real Partition) + a small state machine for TLC.                        *)
EXTENDS Naturals, Integers, Sequences, FiniteSets, TLC

Day == 86400
MaxUptime == 21 * Day       \* DEFAULT_SERVER_UPTIME
MinUptime == 1 * Day        \* MIN_SERVER_UPTIME
BucketTs(d) == d * Day + 86399

(* buckets: sequence of [ts, members]; ordered by ts *)
Cost(b, upSince) == IF b.ts > upSince + MaxUptime \/ b.ts < upSince + MinUptime THEN -1
                    ELSE Cardinality(b.members)       \* -1 = infinite

(* index of the bucket Partition.add chooses *)
Choose(buckets, upSince, wanted) ==
  LET n == Len(buckets)
      same == {i \in 1..n : buckets[i].ts = wanted}
      overdue == buckets[1].ts > upSince + MaxUptime
      finite == {i \in 1..n : Cost(buckets[i], upSince) # -1}
      \* min(reversed(buckets), key=cost): the LAST index among those of least cost;
      \* if every cost is infinite min() returns the first of the reversed list = the last bucket
      best == IF finite = {} THEN n
              ELSE CHOOSE i \in finite :
                     \A j \in finite : \/ Cost(buckets[i], upSince) < Cost(buckets[j], upSince)
                                       \/ (Cost(buckets[i], upSince) = Cost(buckets[j], upSince) /\ i >= j)
  IN IF overdue THEN 1
     ELSE IF wanted # 0 /\ same # {} THEN CHOOSE i \in same : TRUE
     ELSE best

DoAdd(buckets, s, upSince, wanted) ==
  LET i == Choose(buckets, upSince, wanted) IN
  [buckets |-> [buckets EXCEPT ![i].members = @ \cup {s}], vu |-> buckets[i].ts]

DoRemove(buckets, s) == [i \in DOMAIN buckets |-> [buckets[i] EXCEPT !.members = @ \ {s}]]

(* tick(now): extend the horizon to now + MaxUptime, drop buckets in the past *)
RECURSIVE Extend(_, _, _)
Extend(buckets, last, now) ==
  IF last > now + MaxUptime THEN [buckets |-> buckets, last |-> last]
  ELSE LET d == IF buckets = <<>> THEN now \div Day
                ELSE (buckets[Len(buckets)].ts \div Day) + 1
           b == [ts |-> BucketTs(d), members |-> {}]
       IN Extend(Append(buckets, b), b.ts, now)

RECURSIVE DropPast(_, _)
DropPast(buckets, now) ==
  IF buckets # <<>> /\ buckets[1].ts < now THEN DropPast(Tail(buckets), now) ELSE buckets

DoTick(buckets, last, now) ==
  LET e == Extend(buckets, last, now) IN [buckets |-> DropPast(e.buckets, now), last |-> e.last]

-----------------------------------------------------------------------------
(* what the assignment guarantees (checked on the model and on every recorded  *)
(* add of the real Partition)                                                 *)
InWindow(ts, upSince) == ts >= upSince + MinUptime /\ ts <= upSince + MaxUptime

AddOk(buckets, upSince, wanted, vu) ==
  LET n == Len(buckets)
      eligible == {i \in 1..n : InWindow(buckets[i].ts, upSince)}
      overdue == buckets[1].ts > upSince + MaxUptime
      pinned == wanted # 0 /\ \E i \in 1..n : buckets[i].ts = wanted IN
  /\ \E i \in 1..n : buckets[i].ts = vu                     \* a real reboot date
  /\ overdue => vu = buckets[1].ts                           \* too old: next opportunity
  /\ (~overdue /\ pinned) => vu = wanted                    \* keeps the date it had
  /\ (~overdue /\ ~pinned /\ eligible # {}) =>
        /\ InWindow(vu, upSince)                             \* between 1 and 21 days of uptime
        /\ \A i \in eligible :                               \* least loaded date, latest on ties
             LET c == CHOOSE k \in 1..n : buckets[k].ts = vu IN
             Cardinality(buckets[c].members) <= Cardinality(buckets[i].members)
=============================================================================
