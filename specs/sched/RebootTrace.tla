---------------------------- MODULE RebootTrace ----------------------------
(* Recorded operations of the real scheduler.Partition judged against        *)
(* Reboot.tla (extension beyond the listed properties; clauses are named ext.reboot.X)   *)
EXTENDS RebootOps, TraceLib, Json, IOUtils

Batch == JsonDeserialize(IOEnv.TRACE_FILE)
Traces == Batch.traces

VARIABLES t, i

Canon(tab) == [k \in DOMAIN tab |-> [ts |-> tab[k][1], members |-> SetOf(tab[k][2])]]

F(name, holds) == IF holds THEN {} ELSE {name}

Verdict(prev, line) ==
  LET pre == Canon(line.pre) post == Canon(line.buckets) IN
  IF line.ev = "Add"
  THEN LET s == line.args[1] up == line.args[2] wanted == line.args[3]
           r == DoAdd(pre, s, up, wanted) IN
       F("ext.reboot.step", r.buckets = post /\ r.vu = line.vu[s])
       \cup F("ext.reboot.addOk", AddOk(pre, up, wanted, line.vu[s]))
  ELSE IF line.ev = "Remove"
  THEN F("ext.reboot.step", DoRemove(pre, line.args[1]) = post)
  ELSE LET r == DoTick(pre, prev.last, line.now) IN
       F("ext.reboot.step", r.buckets = post /\ r.last = line.last)
       \cup F("ext.reboot.horizon",
              /\ post # <<>> /\ post[1].ts >= line.now
              /\ post[Len(post)].ts > line.now + MaxUptime)

TInit == t \in DOMAIN Traces /\ i = 1
TNext == /\ i < Len(Traces[t].lines) /\ i' = i + 1 /\ t' = t
        /\ LET v == Verdict(Traces[t].lines[i], Traces[t].lines[i + 1]) IN
           PrintT(ToJson([tid |-> Traces[t].tid, i |-> i, fail |-> v, ex |-> {}]))
TSpec == TInit /\ [][TNext]_<<t, i>>
=============================================================================
