---------------------------- MODULE SchedCore ----------------------------
(* Pure operators over the abstract scheduler state `st` (DESIGN.md, app. A) *)
(* and the property clauses C01, C03, C04, C05, C07, C08 as predicates over  *)
(* (pre, cycle observation, post).  Used unchanged by the model-checked     *)
(* specification (Sched.tla) and by the trace specification (SchedTrace.tla) *)
(*                                                                          *)
(* st.clock                                                                 *)
(* st.servers[s] = [cap, free, state, since, label, traits, vu, parent,     *)
(*                  apps, ctr]                                              *)
(* st.buckets[b] = [level, parent, free, traits, labels, ctr]               *)
(* st.apps[a]    = [demand, prio, aff, limits, alloc, label, server,        *)
(*                  identity, group, lease, expiry, retention, once,        *)
(*                  evicted, renew, unschedule, blacklisted, traits, order] *)
(* st.groups[g]  = [count, available]                                       *)
(* None is "" for names and -1 for numbers.                                 *)
EXTENDS Naturals, Integers, Sequences, FiniteSets, FiniteSetsExt, TLC

NoServer == ""
NoNum == -1
UnplacedRank == -1

SrvNames(st) == DOMAIN st.servers
AppNames(st) == DOMAIN st.apps
BktNames(st) == DOMAIN st.buckets
Dim(st) == IF SrvNames(st) = {} THEN {} ELSE
             DOMAIN st.servers[CHOOSE s \in SrvNames(st) : TRUE].cap

Ctr(node, f) == IF f \in DOMAIN node.ctr THEN node.ctr[f] ELSE 0

ParentOf(st, n) == IF n \in SrvNames(st) THEN st.servers[n].parent
                   ELSE IF n \in BktNames(st) THEN st.buckets[n].parent ELSE ""

LevelOf(st, n) == IF n \in SrvNames(st) THEN "server" ELSE st.buckets[n].level

RECURSIVE AncOf(_, _)
AncOf(st, n) == LET p == ParentOf(st, n) IN
                IF p = "" THEN {} ELSE {p} \cup AncOf(st, p)

(* servers at or below node n *)
Under(st, n) == {s \in SrvNames(st) : s = n \/ n \in AncOf(st, s)}

(* the server-side view is taken as "where the instance is" *)
AppsOn(st, s) == st.servers[s].apps
AppsUnder(st, n) == UNION {AppsOn(st, s) : s \in Under(st, n)}

DemandOf(st, a) == IF a \in AppNames(st) THEN st.apps[a].demand
                   ELSE [d \in Dim(st) |-> 0]

Load(st, s, d) == FoldSet(LAMBDA a, acc : acc + DemandOf(st, a)[d], 0, AppsOn(st, s))

Placed(st) == {a \in AppNames(st) : st.apps[a].server # NoServer}

Limit(app, level) == IF level \in DOMAIN app.limits THEN app.limits[level] ELSE NoNum

TrueCount(st, n, f) ==
  Cardinality({a \in AppsUnder(st, n) : a \in AppNames(st) /\ st.apps[a].aff = f})

Affs(st) == {st.apps[a].aff : a \in AppNames(st)}
            \cup UNION {DOMAIN st.servers[s].ctr : s \in SrvNames(st)}
            \cup UNION {DOMAIN st.buckets[b].ctr : b \in BktNames(st)}

Nodes(st) == SrvNames(st) \cup BktNames(st)

NodeRec(st, n) == IF n \in SrvNames(st) THEN st.servers[n] ELSE st.buckets[n]

-----------------------------------------------------------------------------
(* C01 *)
C01cap(st) == \A s \in SrvNames(st), d \in Dim(st) : Load(st, s, d) <= st.servers[s].cap[d]
C01free(st) == \A s \in SrvNames(st), d \in Dim(st) :
                 st.servers[s].free[d] = st.servers[s].cap[d] - Load(st, s, d)
C01single(st) == \A s1, s2 \in SrvNames(st) :
                   s1 # s2 => AppsOn(st, s1) \cap AppsOn(st, s2) = {}
C01views(st) ==
  /\ \A a \in AppNames(st) :
       LET s == st.apps[a].server IN
       IF s = NoServer THEN \A x \in SrvNames(st) : a \notin AppsOn(st, x)
       ELSE s \in SrvNames(st) /\ a \in AppsOn(st, s)
  /\ \A s \in SrvNames(st) : \A a \in AppsOn(st, s) :
       a \in AppNames(st) /\ st.apps[a].server = s

-----------------------------------------------------------------------------
(* C03 *)
FitsPartition(st, a, s) ==
  /\ st.servers[s].label = st.apps[a].label
  /\ st.apps[a].traits \subseteq st.servers[s].traits

LifetimeOk(st, a, s) ==
  st.apps[a].lease > 0 => st.clock + st.apps[a].lease < st.servers[s].vu

C03post(st) == \A a \in Placed(st) :
                 st.apps[a].server \in SrvNames(st) => FitsPartition(st, a, st.apps[a].server)

(* placement: sequence of <<name, before, expBefore, after, expAfter>> *)
C03assign(post, placement) ==
  \A i \in DOMAIN placement :
    LET p == placement[i] a == p[1] b == p[2] af == p[4] IN
    (af # NoServer /\ af # b /\ a \in AppNames(post)) =>
      /\ af \in SrvNames(post)
      /\ post.servers[af].state = "up"
      /\ FitsPartition(post, a, af)
      /\ LifetimeOk(post, a, af)

C03renew(post, placement) ==
  \A i \in DOMAIN placement :
    LET p == placement[i] a == p[1] b == p[2] af == p[4] IN
    (af # NoServer /\ af = b /\ p[3] # p[5] /\ a \in AppNames(post)
       /\ af \in SrvNames(post)) => LifetimeOk(post, a, af)

(* "is not due for reboot before the lease ends": the lease end the scheduler  *)
(* RECORDS for a new assignment or a renewal lies before the server's reboot   *)
C03leaseEnd(post, placement) ==
  \A i \in DOMAIN placement :
    LET p == placement[i] a == p[1] b == p[2] af == p[4] IN
    (/\ af # NoServer /\ a \in AppNames(post) /\ af \in SrvNames(post)
     /\ (af # b \/ p[3] # p[5])
     /\ post.apps[a].lease > 0 /\ post.apps[a].expiry # NoNum) =>
       post.apps[a].expiry < post.servers[af].vu

C03ex(placement) == \E i \in DOMAIN placement :
                      placement[i][4] # NoServer /\ placement[i][4] # placement[i][2]

-----------------------------------------------------------------------------
(* C04 *)
C04limit(st) ==
  \A n \in Nodes(st) : \A a \in AppsUnder(st, n) :
    a \in AppNames(st) =>
      LET lim == Limit(st.apps[a], LevelOf(st, n)) IN
      lim # NoNum => TrueCount(st, n, st.apps[a].aff) <= lim

C04counters(st) ==
  \A n \in Nodes(st), f \in Affs(st) : Ctr(NodeRec(st, n), f) = TrueCount(st, n, f)

(* some node is exactly at a finite limit: the limit is doing work *)
C04ex(st) ==
  \E n \in Nodes(st) : \E a \in AppsUnder(st, n) :
    a \in AppNames(st) /\ Limit(st.apps[a], LevelOf(st, n)) # NoNum
      /\ TrueCount(st, n, st.apps[a].aff) >= Limit(st.apps[a], LevelOf(st, n))

-----------------------------------------------------------------------------
(* C05 *)
Members(st, g) == {a \in AppNames(st) : st.apps[a].group = g}
Held(st, g) == {st.apps[a].identity : a \in {x \in Members(st, g) : st.apps[x].identity # NoNum}}
GroupsUsed(st) == {st.apps[a].group : a \in AppNames(st)} \ {""}
GroupCount(st, g) == IF g \in DOMAIN st.groups THEN st.groups[g].count ELSE 0

C05unique(st) == \A g \in GroupsUsed(st) : \A a, b \in Members(st, g) :
                   (a # b /\ st.apps[a].identity # NoNum) =>
                      st.apps[a].identity # st.apps[b].identity
C05range(st) == \A g \in GroupsUsed(st) : \A a \in Members(st, g) :
                  st.apps[a].identity # NoNum =>
                    (st.apps[a].identity >= 0 /\ st.apps[a].identity < GroupCount(st, g))
C05placedHas(st) == \A g \in GroupsUsed(st) : \A a \in Members(st, g) :
                      st.apps[a].server # NoServer => st.apps[a].identity # NoNum
C05pendingNone(st) == \A g \in GroupsUsed(st) : \A a \in Members(st, g) :
                        st.apps[a].server = NoServer => st.apps[a].identity = NoNum
C05avail(st) == \A g \in DOMAIN st.groups :
                  st.groups[g].available = (0..(st.groups[g].count - 1)) \ Held(st, g)
C05ex(st) == \E g \in GroupsUsed(st) : \E a \in Members(st, g) : st.apps[a].identity # NoNum

-----------------------------------------------------------------------------
(* C07 / C08.  queue: the concatenation of the cycle's per-partition queues  *)
(* as sequences of <<name, rank>>.                                          *)
QPos(queue, a) == IF \E i \in DOMAIN queue : queue[i][1] = a
                  THEN CHOOSE i \in DOMAIN queue : queue[i][1] = a ELSE 0
QRank(queue, a) == LET i == QPos(queue, a) IN IF i = 0 THEN UnplacedRank ELSE queue[i][2]

IdentityValid(st, a) ==
  st.apps[a].group = "" \/
    (st.apps[a].identity # NoNum /\ st.apps[a].identity < GroupCount(st, st.apps[a].group))

RenewFails(st, a, s) == st.apps[a].renew /\ ~LifetimeOk(st, a, s)

(* common antecedent: v is placed on s before the cycle and nothing other  *)
(* than capacity competition entitles the scheduler to take it away        *)
Entitled(pre, post, queue, v) ==
  /\ v \in AppNames(pre) /\ v \in AppNames(post)
  /\ pre.apps[v].server # NoServer
  /\ pre.apps[v].server \in SrvNames(pre)
  /\ v \in AppsOn(pre, pre.apps[v].server)
  /\ ~pre.apps[v].blacklisted
  /\ QPos(queue, v) # 0 /\ QRank(queue, v) # UnplacedRank
  /\ IdentityValid(pre, v)
  /\ ~RenewFails(pre, v, pre.apps[v].server)
  /\ FitsPartition(pre, v, pre.apps[v].server)

Gained(pre, post, x) == /\ x \in AppNames(post) /\ post.apps[x].server # NoServer
                        /\ (x \notin AppNames(pre) \/ pre.apps[x].server # post.apps[x].server)

(* queue entries <<name, rank, placedAtQueueTime>> and the order inside one allocation *)
RK(r) == IF r = UnplacedRank THEN 1000000000 ELSE r
QApp(st, e) == st.apps[e[1]]
Pend(e) == IF e[3] THEN 0 ELSE 1

(* e1 sorts strictly before e2 inside one allocation *)
KeyBefore(st, e1, e2) ==
  LET a == QApp(st, e1) b == QApp(st, e2) IN
  \/ a.prio > b.prio
  \/ a.prio = b.prio /\ Pend(e1) < Pend(e2)
  \/ a.prio = b.prio /\ Pend(e1) = Pend(e2) /\ a.order < b.order

(* "ahead of v": earlier in the cycle's queue - and, inside one allocation,     *)
(* not behind v by the allocation's own order (priority, running before        *)
(* pending, arrival): a queue that was sorted on a state older than the one     *)
(* scheduled on does not make a pending instance "ahead" of a running one       *)
AheadOf(pre, queue, i, v) ==
  LET j == QPos(queue, v) x == queue[i][1] IN
  /\ i < j
  /\ (x \in AppNames(pre) /\ Len(queue[i]) >= 3 /\ Len(queue[j]) >= 3
      /\ pre.apps[x].alloc = pre.apps[v].alloc) => ~KeyBefore(pre, queue[j], queue[i])

C07justified(pre, post, queue) ==
  \A v \in AppNames(pre) :
    (Entitled(pre, post, queue, v) /\ pre.servers[pre.apps[v].server].state = "up") =>
      \/ post.apps[v].server = pre.apps[v].server
      \/ \E i \in 1..(QPos(queue, v) - 1) :
            Gained(pre, post, queue[i][1]) /\ AheadOf(pre, queue, i, v)

C07ex(pre, post, queue) ==
  \E v \in AppNames(pre) :
    /\ Entitled(pre, post, queue, v) /\ pre.servers[pre.apps[v].server].state = "up"
    /\ post.apps[v].server # pre.apps[v].server

-----------------------------------------------------------------------------
(* C06: one partition's queue q = sequence of <<name, rank, placedAtQueueTime>> *)
(* st supplies priorities, arrival stamps, demands and the allocations         *)
C06perm(st, qs) ==
  /\ \A k \in DOMAIN qs : \A i, j \in DOMAIN qs[k] : i # j => qs[k][i][1] # qs[k][j][1]
  /\ \A k1, k2 \in DOMAIN qs : k1 # k2 =>
        {qs[k1][i][1] : i \in DOMAIN qs[k1]} \cap {qs[k2][i][1] : i \in DOMAIN qs[k2]} = {}
  /\ UNION {{qs[k][i][1] : i \in DOMAIN qs[k]} : k \in DOMAIN qs} = AppNames(st)
  /\ \A k \in DOMAIN qs : \A i, j \in DOMAIN qs[k] :
        st.apps[qs[k][i][1]].label = st.apps[qs[k][j][1]].label

C06rank(q) == \A i \in 1..(Len(q) - 1) : RK(q[i][2]) <= RK(q[i + 1][2])

C06prio(st, q) ==
  \A i, j \in DOMAIN q :
    (i < j /\ QApp(st, q[i]).alloc = QApp(st, q[j]).alloc) => ~KeyBefore(st, q[j], q[i])

C06zeroLast(st, q) ==
  \A i, j \in DOMAIN q :
    (i < j /\ QApp(st, q[i]).prio = 0 /\ QApp(st, q[j]).prio > 0) => RK(q[i][2]) < RK(q[j][2])

(* cumulative demand of the instances of q[k]'s allocation up to position k *)
CumDemand(st, q, k, incl) ==
  LET x == QApp(st, q[k]).alloc
      idx == {i \in DOMAIN q : QApp(st, q[i]).alloc = x /\ (i < k \/ (incl /\ i = k))}
  IN [d \in DOMAIN QApp(st, q[k]).demand |->
        FoldSet(LAMBDA i, acc : acc + QApp(st, q[i]).demand[d], 0, idx)]

C06boost(st, q) ==
  \A k \in DOMAIN q :
    LET a == QApp(st, q[k]) al == st.allocs[a.alloc]
        before == CumDemand(st, q, k, FALSE) after == CumDemand(st, q, k, TRUE) IN
    (/\ a.prio > 0
     /\ al.maxutil = NoNum \/ al.maxutil >= 1
     /\ \A d \in DOMAIN after : after[d] <= al.reserved[d] /\ before[d] < al.reserved[d])
      => q[k][2] = al.rank - al.adj

C06cap(st, q, post) ==
  \A k \in DOMAIN q :
    LET a == QApp(st, q[k]) al == st.allocs[a.alloc]
        after == CumDemand(st, q, k, TRUE) IN
    (al.maxutil # NoNum /\ \E d \in DOMAIN after : after[d] > al.maxutil * al.reserved[d])
      => /\ q[k][2] = UnplacedRank
         /\ (q[k][1] \in AppNames(post) => post.apps[q[k][1]].server = NoServer)

(* ... and ONLY such an instance is left out: without a cap, or with the       *)
(* cumulative demand within it, an instance is ranked.  (A priority-0 instance  *)
(* of a capped allocation counts as beyond any cap: its utilisation is "max".)  *)
C06capOnly(st, q) ==
  \A k \in DOMAIN q :
    LET a == QApp(st, q[k]) al == st.allocs[a.alloc]
        after == CumDemand(st, q, k, TRUE) IN
    (al.maxutil = NoNum
     \/ (a.prio > 0 /\ \A d \in DOMAIN after : after[d] <= al.maxutil * al.reserved[d]))
      => q[k][2] # UnplacedRank

(* the queue with "not ranked" kept only where the DECLARED cap justifies it    *)
(* (C07/C08 exempt an instance "over its utilisation cap": over the cap the     *)
(* allocation document declares, not over one the code kept by mistake)         *)
CapJustified(st, q, k) ==
  LET a == QApp(st, q[k]) al == st.allocs[a.alloc]
      after == CumDemand(st, q, k, TRUE) IN
  al.maxutil # NoNum /\ (a.prio = 0 \/ \E d \in DOMAIN after : after[d] > al.maxutil * al.reserved[d])
FixQueue(st, q) ==
  [k \in DOMAIN q |->
     IF q[k][2] = UnplacedRank /\ q[k][1] \in DOMAIN st.apps /\ ~CapJustified(st, q, k)
     THEN <<q[k][1], st.allocs[QApp(st, q[k]).alloc].rank, q[k][3]>> ELSE q[k]]

C06ex(st, q) == /\ Len(q) >= 3
                /\ Cardinality({QApp(st, q[i]).alloc : i \in DOMAIN q}) >= 2
                /\ Cardinality({QApp(st, q[i]).prio : i \in DOMAIN q}) >= 2

-----------------------------------------------------------------------------
(* C02 *)
(* (a) pruning soundness of the aggregates kept on racks/pods/cell: they may  *)
(* over-approximate but never hide an up server                              *)
C02prune(st) ==
  \A s \in SrvNames(st) : st.servers[s].state = "up" =>
    \A b \in AncOf(st, s) :
      /\ "free" \in DOMAIN st.buckets[b] =>
           \A d \in DOMAIN st.servers[s].free : st.buckets[b].free[d] >= st.servers[s].free[d]
      /\ "traits" \in DOMAIN st.buckets[b] => st.servers[s].traits \subseteq st.buckets[b].traits
      /\ "labels" \in DOMAIN st.buckets[b] => st.servers[s].label \in st.buckets[b].labels

(* (b) leaf-scan oracle: some up server takes the probe as it is *)
LeafFits(st, a, s) ==
  /\ st.servers[s].state = "up"
  /\ st.servers[s].label = st.apps[a].label
  /\ st.apps[a].traits \subseteq st.servers[s].traits
  /\ (st.apps[a].lease > 0 => st.clock + st.apps[a].lease < st.servers[s].vu)
  /\ \A d \in DOMAIN st.apps[a].demand : st.apps[a].demand[d] <= st.servers[s].free[d]
  /\ \A n \in {s} \cup AncOf(st, s) :
       LET lim == Limit(st.apps[a], LevelOf(st, n)) IN
       lim = NoNum \/ TrueCount(st, n, st.apps[a].aff) < lim

(* "an identity is free if it needs one": some identity below the group's count *)
(* is held by nobody (computed from the holders, not from the group's own      *)
(* bookkeeping of what is available)                                           *)
IdentityFree(st, a) ==
  st.apps[a].group = "" \/ st.apps[a].identity # NoNum
    \/ \E id \in 0..(GroupCount(st, st.apps[a].group) - 1) : id \notin Held(st, st.apps[a].group)

C02probe(pre, post, queue, a) ==
  (/\ a \in AppNames(pre) /\ a \in AppNames(post)
   /\ pre.apps[a].server = NoServer /\ ~pre.apps[a].blacklisted
   /\ QPos(queue, a) # 0 /\ QRank(queue, a) # UnplacedRank
   /\ IdentityFree(pre, a)
   /\ \E s \in SrvNames(pre) : LeafFits(pre, a, s)
   /\ \A i \in 1..(QPos(queue, a) - 1) :
        queue[i][1] \in AppNames(post) /\ queue[i][1] \in AppNames(pre)
          /\ post.apps[queue[i][1]].server = pre.apps[queue[i][1]].server)
    => post.apps[a].server # NoServer

C02ex(pre, queue, a) ==
  /\ a \in AppNames(pre) /\ QPos(queue, a) # 0
  /\ \E s \in SrvNames(pre) : LeafFits(pre, a, s)

RetentionEnd(pre, v) ==
  LET s == pre.apps[v].server r == pre.apps[v].retention IN
  IF r = NoNum THEN 0 ELSE pre.servers[s].since + r

(* the same with the down-time taken from the observer's own record ds of     *)
(* when each server actually went down (the stored `since` is the code's      *)
(* bookkeeping, which is itself under test)                                   *)
RetentionEndObs(pre, v, ds) ==
  LET s == pre.apps[v].server r == pre.apps[v].retention
      since == IF s \in DOMAIN ds THEN ds[s] ELSE pre.servers[s].since IN
  IF r = NoNum THEN 0 ELSE since + r

(* the cycle runs at post.clock (= pre.clock: a cycle does not advance time) *)
(* a server is down when the observer saw it go down (and not come back), or,  *)
(* where the observer has no record, when the scheduler's own state says so    *)
IsDown(pre, s, ds) == s \in DOMAIN ds \/ pre.servers[s].state = "down"

C08keep(pre, post, queue, ds) ==
  \A v \in AppNames(pre) :
    (Entitled(pre, post, queue, v) /\ ~pre.apps[v].renew
       /\ IsDown(pre, pre.apps[v].server, ds)
       /\ RetentionEndObs(pre, v, ds) > post.clock) =>
      post.apps[v].server = pre.apps[v].server

C08expire(pre, post, ds) ==
  \A v \in AppNames(pre) :
    (/\ v \in AppNames(post) /\ pre.apps[v].server # NoServer
     /\ pre.apps[v].server \in SrvNames(pre)
     /\ IsDown(pre, pre.apps[v].server, ds)
     /\ RetentionEndObs(pre, v, ds) <= post.clock) =>
      post.apps[v].server # pre.apps[v].server

C08frozenKeep(pre, post, queue) ==
  \A v \in AppNames(pre) :
    (Entitled(pre, post, queue, v) /\ ~pre.apps[v].renew
       /\ pre.servers[pre.apps[v].server].state = "frozen"
       /\ ~pre.apps[v].unschedule) =>
      post.apps[v].server = pre.apps[v].server

C08frozenNoNew(pre, post) ==
  \A a \in AppNames(post) :
    LET s == post.apps[a].server IN
    (s # NoServer /\ s \in SrvNames(post) /\ post.servers[s].state # "up") =>
      (a \in AppNames(pre) /\ pre.apps[a].server = s)

C08blacklist(post) == \A a \in AppNames(post) :
                        post.apps[a].blacklisted => post.apps[a].server = NoServer

C08ex(pre, post) ==
  \/ \E v \in AppNames(pre) : pre.apps[v].server # NoServer
        /\ pre.apps[v].server \in SrvNames(pre)
        /\ pre.servers[pre.apps[v].server].state # "up"
  \/ \E a \in AppNames(post) : post.apps[a].blacklisted
=============================================================================
