----------------------------- MODULE SchedEnv -----------------------------
(* Environment events of the scheduler model as successor functions.  Each  *)
(* mirrors what scheduler.Cell / loader do for the event (appendix A, B).   *)
(* scn (the scenario) supplies the static data an event refers to:          *)
(*   scn.aprofiles[p] = [demand, prio, aff, limits, alloc, group, lease,    *)
(*                       retention, once, traits]                           *)
(*   scn.sprofiles[p] = [cap, label, traits, vu]                            *)
(*   scn.sparent[s]   = rack of server s                                    *)
(*   scn.allocs[x]    = [label, traits, ...]                                *)
EXTENDS SchedCycle

HeldBy(st, g) == {st.apps[a].identity : a \in {x \in AppNames(st) :
                     st.apps[x].group = g /\ st.apps[x].identity # NoNum}}

DoSubmit(st, a, prof, allocs, order) ==
  LET al == allocs[prof.alloc]
      rec == [demand |-> prof.demand, prio |-> prof.prio, aff |-> prof.aff,
              limits |-> prof.limits, alloc |-> prof.alloc, label |-> al.label,
              server |-> NoServer, identity |-> NoNum, group |-> prof.group,
              lease |-> prof.lease, expiry |-> NoNum, retention |-> prof.retention,
              once |-> prof.once, evicted |-> FALSE, renew |-> FALSE, unschedule |-> FALSE,
              blacklisted |-> FALSE, traits |-> prof.traits \cup al.traits,
              own |-> prof.traits, order |-> order]
      s1 == [st EXCEPT !.apps = [x \in DOMAIN @ \cup {a} |-> IF x = a THEN rec ELSE @[x]]]
  IN IF prof.group # "" /\ prof.group \notin DOMAIN st.groups
     THEN [s1 EXCEPT !.groups = [g \in DOMAIN @ \cup {prof.group} |->
                                   IF g = prof.group THEN [count |-> 0, available |-> {}]
                                   ELSE @[g]]]
     ELSE s1

DoRemoveApp(st, a) ==
  LET s1 == IF st.apps[a].server \in SrvNames(st) THEN SrvRemove(st, a) ELSE st
      s2 == Release(s1, a)
  IN [s2 EXCEPT !.apps = [x \in DOMAIN @ \ {a} |-> @[x]]]

DoMove(st, a, alloc, allocs) ==
  [st EXCEPT !.apps[a].alloc = alloc, !.apps[a].label = allocs[alloc].label,
             !.apps[a].traits = st.apps[a].own \cup allocs[alloc].traits]

DoSetState(st, s, state) ==
  IF st.servers[s].state = state THEN st
  ELSE [st EXCEPT !.servers[s].state = state, !.servers[s].since = st.clock]

DoRemoveServer(st, s) ==
  LET s1 == FoldApps(SrvRemove, st, AppsOn(st, s)) IN
  [s1 EXCEPT !.servers = [x \in DOMAIN @ \ {s} |-> @[x]]]

DoAddServer(st, s, sp, parent) ==
  LET rec == [cap |-> sp.cap, free |-> sp.cap, state |-> "up", since |-> st.clock,
              label |-> sp.label, traits |-> sp.traits, vu |-> sp.vu, parent |-> parent,
              apps |-> {}, ctr |-> EmptyFn]
  IN [st EXCEPT !.servers = [x \in DOMAIN @ \cup {s} |-> IF x = s THEN rec ELSE @[x]]]

(* Cell.configure_identity_group / IdentityGroup.adjust *)
DoSetCount(st, g, n) ==
  IF g \notin DOMAIN st.groups
  THEN [st EXCEPT !.groups = [x \in DOMAIN @ \cup {g} |->
                                IF x = g THEN [count |-> n, available |-> 0..(n - 1)] ELSE @[x]]]
  ELSE LET old == st.groups[g].count av == st.groups[g].available
           grown == (av \cup (old..(n - 1))) \ (av \cap (old..(n - 1)))
           av1 == IF n >= old
                  THEN IF "adjust_xor" \in Defects THEN grown ELSE grown \ HeldBy(st, g)
                  ELSE av \ (n..(old - 1))
       IN [st EXCEPT !.groups[g] = [count |-> n, available |-> av1]]

DoDelGroup(st, g) ==
  IF g \notin DOMAIN st.groups THEN st
  ELSE IF \E a \in AppNames(st) : st.apps[a].group = g
  THEN [st EXCEPT !.groups[g] = [count |-> 0, available |-> {}]]
  ELSE [st EXCEPT !.groups = [x \in DOMAIN @ \ {g} |-> @[x]]]

NextOrder(st) == 1 + FoldSet(LAMBDA a, m : IF st.apps[a].order > m THEN st.apps[a].order ELSE m,
                             0, AppNames(st))

(* JSON-shaped profiles carry sets as sequences; MC passes sets: callers    *)
(* normalise.  ev/args as logged by the harness.                            *)
EnvDo(st, ev, args, scn) ==
  CASE ev = "Submit" -> DoSubmit(st, args[1], scn.aprofiles[args[2]], scn.allocs, NextOrder(st))
    [] ev = "RemoveApp" -> DoRemoveApp(st, args[1])
    [] ev = "SetPrio" -> [st EXCEPT !.apps[args[1]].prio = args[2]]
    [] ev = "Move" -> DoMove(st, args[1], args[2], scn.allocs)
    [] ev = "Down" -> DoSetState(st, args[1], "down")
    [] ev = "Up" -> DoSetState(st, args[1], "up")
    [] ev = "Freeze" -> DoSetState(st, args[1], "frozen")
    [] ev = "MarkUnschedule" -> [st EXCEPT !.apps[args[1]].unschedule = TRUE]
    [] ev = "RemoveServer" -> DoRemoveServer(st, args[1])
    [] ev = "AddServer" -> DoAddServer(st, args[1], scn.sprofiles[args[2]], scn.sparent[args[1]])
    [] ev = "SetVu" -> [st EXCEPT !.servers[args[1]].vu = args[2]]
    [] ev = "Blacklist" -> [st EXCEPT !.apps[args[1]].blacklisted = TRUE]
    [] ev = "Unblacklist" -> [st EXCEPT !.apps[args[1]].blacklisted = FALSE]
    [] ev = "SetCount" -> DoSetCount(st, args[1], args[2])
    [] ev = "DelGroup" -> DoDelGroup(st, args[1])
    [] ev = "Renew" -> [st EXCEPT !.apps[args[1]].renew = TRUE]
    [] ev = "Tick" -> [st EXCEPT !.clock = @ + args[1]]
    [] OTHER -> st

EnvExplained(pre, ev, args, post, scn) == Proj(EnvDo(pre, ev, args, scn)) = Proj(post)
=============================================================================
