---------------------------- MODULE SchedTrace ----------------------------
(* Trace specification for recorded executions of the real scheduler.       *)
(* Batch file (env TRACE_FILE): [traces |-> << [tid, lines] >>]; line 1 is   *)
(* the initial state, every later line = one environment event or one       *)
(* Cycle with the projected state after it (harness/sched_l1.py).           *)
(* The spec is TOTAL: every line is consumed, the logged post-state is      *)
(* adopted, and the set of failed named clauses is printed.                 *)
EXTENDS SchedEnv, TraceLib, Units, Json, IOUtils

Batch == JsonDeserialize(IOEnv.TRACE_FILE)
Traces == Batch.traces

VARIABLES t, i, st, aux

CanonSrv(j) == [cap |-> j.cap, free |-> j.free, state |-> j.state, since |-> j.since,
                label |-> j.label, traits |-> SetOf(j.traits), vu |-> j.vu,
                parent |-> j.parent, apps |-> SetOf(j.apps), ctr |-> j.ctr]
CanonBkt(j) == [level |-> j.level, parent |-> j.parent, free |-> j.free,
                traits |-> SetOf(j.traits), labels |-> SetOf(j.labels), ctr |-> j.ctr]
CanonApp(j) == [demand |-> j.demand, prio |-> j.prio, aff |-> j.aff, limits |-> j.limits,
                alloc |-> j.alloc, label |-> j.label, server |-> j.server,
                identity |-> j.identity, group |-> j.group, lease |-> j.lease,
                expiry |-> j.expiry, retention |-> j.retention, once |-> j.once,
                evicted |-> j.evicted, renew |-> j.renew, unschedule |-> j.unschedule,
                blacklisted |-> j.blacklisted, traits |-> SetOf(j.traits),
                own |-> SetOf(j.own), order |-> j.order]
CanonGrp(j) == [count |-> j.count, available |-> SetOf(j.available)]
Canon(js) == [clock |-> js.clock, nea |-> js.nea,
              servers |-> [s \in DOMAIN js.servers |-> CanonSrv(js.servers[s])],
              buckets |-> [b \in DOMAIN js.buckets |-> CanonBkt(js.buckets[b])],
              apps |-> [a \in DOMAIN js.apps |-> CanonApp(js.apps[a])],
              groups |-> [g \in DOMAIN js.groups |-> CanonGrp(js.groups[g])],
              allocs |-> js.allocs]

CanonAP(j) == [demand |-> j.demand, prio |-> j.prio, aff |-> j.aff, limits |-> j.limits,
               alloc |-> j.alloc, group |-> j.group, lease |-> j.lease,
               retention |-> j.retention, once |-> j.once, traits |-> SetOf(j.traits)]
CanonSP(j) == [cap |-> j.cap, label |-> j.label, traits |-> SetOf(j.traits), vu |-> j.vu]
CanonScn(j) == [aprofiles |-> [p \in DOMAIN j.aprofiles |-> CanonAP(j.aprofiles[p])],
                sprofiles |-> [p \in DOMAIN j.sprofiles |-> CanonSP(j.sprofiles[p])],
                sparent |-> j.sparent,
                allocs |-> [x \in DOMAIN j.allocs |->
                              [label |-> j.allocs[x].label, traits |-> SetOf(j.allocs[x].traits),
                               rank |-> j.allocs[x].rank, adj |-> j.allocs[x].adj,
                               reserved |-> j.allocs[x].reserved, maxutil |-> j.allocs[x].maxutil]]]

RECURSIVE Flatten(_)
Flatten(qs) == IF qs = <<>> THEN <<>> ELSE Head(qs) \o Flatten(Tail(qs))

F(name, holds) == IF holds THEN {} ELSE {name}
E(name, cond) == IF cond THEN {name} ELSE {}

(* DECLARED attributes come from the environment, OUTCOMES from the observation. *)
(* For L1 traces the trace spec evolves its own copy `aux.decl` of the state by  *)
(* the model's event functions; everything the environment declares (demand,    *)
(* priority, affinity and limits, allocation/partition, group, lease, retention, *)
(* schedule-once, blacklisting, traits; server capacity, partition, traits,     *)
(* reboot date, state and its time; group counts) is read from that copy when a *)
(* property clause is evaluated, so a change that corrupts such a field of the  *)
(* objects under test together with the behaviour cannot hide behind it. What   *)
(* the scheduler decides (server, identity, expiry, free capacity, counters,    *)
(* available identities) is always taken from the recorded state.               *)
OvApp(d, o) == [o EXCEPT !.demand = d.demand, !.prio = d.prio, !.aff = d.aff, !.limits = d.limits,
                         !.alloc = d.alloc, !.label = d.label, !.group = d.group, !.lease = d.lease,
                         !.retention = d.retention, !.once = d.once, !.blacklisted = d.blacklisted,
                         !.traits = d.traits, !.own = d.own]
OvSrv(d, o) == [o EXCEPT !.cap = d.cap, !.label = d.label, !.traits = d.traits, !.vu = d.vu,
                         !.parent = d.parent, !.state = d.state, !.since = d.since]
Overlay(dc, x) ==
  IF ~dc.on THEN x
  ELSE [x EXCEPT
    !.apps = [a \in DOMAIN x.apps |->
                IF a \in DOMAIN dc.st.apps THEN OvApp(dc.st.apps[a], x.apps[a]) ELSE x.apps[a]],
    !.servers = [s \in DOMAIN x.servers |->
                IF s \in DOMAIN dc.st.servers THEN OvSrv(dc.st.servers[s], x.servers[s])
                ELSE x.servers[s]],
    !.groups = [g \in DOMAIN x.groups |->
                IF g \in DOMAIN dc.st.groups THEN [x.groups[g] EXCEPT !.count = dc.st.groups[g].count]
                ELSE x.groups[g]]]

(* L2 traces: the harness restates, for every Cycle line, what the manifests    *)
(* declare (decl_apps) and the partition / priority in force (declared, oprio)  *)
SpelledVec(sp) == <<MB(sp[1]), CPU(sp[2]), MB(sp[3])>>
(* C02's oracle ("room in every dimension") on the capacity a server DECLARED    *)
(* with the one registration the master is bound to hold: free = that capacity   *)
(* minus the demand placed there (used for the probe clause only - C01 judges    *)
(* the recorded capacity and free vectors themselves)                            *)
CapL2(line, x) ==
  IF "spells" \notin DOMAIN line THEN x
  ELSE [x EXCEPT !.servers = [s \in DOMAIN x.servers |->
          IF s \in DOMAIN line.spells /\ Len(line.spells[s]) = 1
          THEN LET cap == SpelledVec(line.spells[s][1])
                   on == {a \in DOMAIN x.apps : x.apps[a].server = s} IN
               [x.servers[s] EXCEPT
                  !.cap = cap,
                  !.free = [d \in DOMAIN cap |->
                              cap[d] - FoldSet(LAMBDA a, acc : acc + x.apps[a].demand[d], 0, on)]]
          ELSE x.servers[s]]]

(* the traits a server reported with the ONE registration the master is bound   *)
(* to hold (spells[s] has a single entry; its 4th element lists them)           *)
TraitsL2(line, x) ==
  IF "spells" \notin DOMAIN line THEN x
  ELSE [x EXCEPT !.servers = [s \in DOMAIN x.servers |->
          IF s \in DOMAIN line.spells /\ Len(line.spells[s]) = 1 /\ Len(line.spells[s][1]) >= 4
          THEN [x.servers[s] EXCEPT !.traits = SetOf(line.spells[s][1][4])] ELSE x.servers[s]]]

FrozenL2(line, x0) ==
  LET x == TraitsL2(line, x0) IN
  IF "obs_frozen" \notin DOMAIN line THEN x
  ELSE [x EXCEPT !.servers = [s \in DOMAIN x.servers |->
          IF s \in SetOf(line.obs_frozen)
          THEN [x.servers[s] EXCEPT !.state = "frozen"] ELSE x.servers[s]]]

OverlayL2(line, x0) ==
  LET x == FrozenL2(line, x0) IN
  IF "decl_apps" \notin DOMAIN line THEN x
  ELSE [x EXCEPT !.apps = [a \in DOMAIN x.apps |->
          IF a \notin DOMAIN line.decl_apps THEN x.apps[a]
          ELSE LET d == line.decl_apps[a] IN
               [x.apps[a] EXCEPT !.retention = d.retention, !.lease = d.lease, !.once = d.once,
                                 !.group = d.group, !.aff = d.aff, !.limits = d.limits,
                                 !.blacklisted = d.blacklisted,
                                 !.traits = IF "traits" \in DOMAIN d
                                            THEN SetOf(d.traits) ELSE @,
                                 !.prio = IF "oprio" \in DOMAIN line /\ a \in DOMAIN line.oprio
                                          THEN line.oprio[a] ELSE @,
                                 !.label = IF "declared" \in DOMAIN line /\ a \in DOMAIN line.declared
                                           THEN line.declared[a] ELSE @]]]

DeclNext(dc, pre, line, scn) ==
  IF ~dc.on \/ "exc" \in DOMAIN line \/ line.ev \in {"Cycle", "ProbeCycle", "L2", "Init"} THEN dc
  ELSE [dc EXCEPT !.st = EnvDo(Overlay(dc, pre), line.ev, line.args, CanonScn(scn))]

(* the observer's own record: when each server went down (aux.down) and which *)
(* allocation the environment last assigned each instance to (aux.alloc)      *)
DownOf(s0) == [s \in {x \in SrvNames(s0) : s0.servers[x].state = "down"} |-> s0.servers[s].since]
Without(f, s) == [x \in DOMAIN f \ {s} |-> f[x]]
With(f, s, v) == [x \in DOMAIN f \cup {s} |-> IF x = s THEN v ELSE f[x]]
DownNext(a, pre, line, post) ==
  IF "exc" \in DOMAIN line THEN a
  ELSE IF line.ev = "Down" /\ line.args[1] \in SrvNames(pre)
  THEN IF pre.servers[line.args[1]].state = "down" THEN a ELSE With(a, line.args[1], post.clock)
  ELSE IF line.ev \in {"Up", "Freeze", "RemoveServer", "AddServer"} THEN Without(a, line.args[1])
  ELSE IF line.ev = "L2" \/ "obs_down" \in DOMAIN line
  THEN IF "obs_down" \in DOMAIN line
       THEN [x \in DOMAIN DownOf(post) \cup (DOMAIN line.obs_down \cap SrvNames(post)) |->
               IF x \in DOMAIN line.obs_down THEN line.obs_down[x] ELSE DownOf(post)[x]]
       ELSE DownOf(post)
  ELSE a

AllocNext(al, line, scn) ==
  IF "exc" \in DOMAIN line THEN al
  ELSE IF line.ev = "Submit" THEN With(al, line.args[1], scn.aprofiles[line.args[2]].alloc)
  ELSE IF line.ev = "Move" THEN With(al, line.args[1], line.args[2])
  ELSE IF line.ev = "RemoveApp" THEN Without(al, line.args[1])
  ELSE al

PrioNext(pr, line, scn) ==
  IF "exc" \in DOMAIN line THEN pr
  ELSE IF line.ev = "Submit" THEN With(pr, line.args[1], scn.aprofiles[line.args[2]].prio)
  ELSE IF line.ev = "SetPrio" THEN With(pr, line.args[1], line.args[2])
  ELSE IF line.ev = "RemoveApp" THEN Without(pr, line.args[1])
  ELSE pr

(* the pre-state as the ENVIRONMENT configured it: allocation parameters,     *)
(* allocation membership and priorities from the observer's record, not from  *)
(* the fields of the code's own objects (C06 is about the declared values)    *)
ObsPre(pre, a, line, tr) ==
  LET scn == IF tr.kind = "l1" THEN CanonScn(tr.scn) ELSE [allocs |-> EmptyFn]
      allocsO == [x \in DOMAIN pre.allocs |->
                    IF x \in DOMAIN scn.allocs
                    THEN [rank |-> scn.allocs[x].rank, adj |-> scn.allocs[x].adj,
                          reserved |-> scn.allocs[x].reserved, maxutil |-> scn.allocs[x].maxutil,
                          label |-> scn.allocs[x].label]
                    ELSE IF "decl_allocs" \in DOMAIN line /\ x \in DOMAIN line.decl_allocs
                    THEN LET d == line.decl_allocs[x] IN
                         [pre.allocs[x] EXCEPT !.rank = d.rank, !.adj = d.adj, !.reserved = d.reserved,
                                               !.maxutil = d.maxutil, !.label = d.label]
                    ELSE pre.allocs[x]]
      prioO(n) == IF n \in DOMAIN a.prio THEN a.prio[n]
                  ELSE IF "oprio" \in DOMAIN line /\ n \in DOMAIN line.oprio THEN line.oprio[n]
                  ELSE pre.apps[n].prio
      allocO(n) == IF n \in DOMAIN a.alloc THEN a.alloc[n] ELSE pre.apps[n].alloc
  IN [pre EXCEPT !.allocs = allocsO,
                 !.apps = [n \in DOMAIN pre.apps |->
                             [pre.apps[n] EXCEPT !.prio = prioO(n), !.alloc = allocO(n)]]]

(* marks for unscheduling are given by the environment for the placement the   *)
(* instance has at that moment (master._freeze_server): a |-> that server      *)
MarkNext(mk, pre, line) ==
  IF "exc" \in DOMAIN line THEN mk
  ELSE IF line.ev = "MarkUnschedule" /\ line.args[1] \in AppNames(pre)
  THEN With(mk, line.args[1], pre.apps[line.args[1]].server)
  ELSE IF line.ev = "RemoveApp" THEN Without(mk, line.args[1])
  ELSE IF line.ev = "L2" THEN EmptyFn
  ELSE mk

LeaseNext(ls, line, scn) ==
  IF "exc" \in DOMAIN line THEN ls
  ELSE IF line.ev = "Submit" THEN With(ls, line.args[1], scn.aprofiles[line.args[2]].lease)
  ELSE IF line.ev = "RemoveApp" THEN Without(ls, line.args[1])
  ELSE ls

(* state with the lease each instance ASKED for (the code keeps the lease in a  *)
(* field it also uses as scratch space while restoring)                          *)
ObsLease(st0, ls) ==
  [st0 EXCEPT !.apps = [n \in DOMAIN st0.apps |->
     IF n \in DOMAIN ls THEN [st0.apps[n] EXCEPT !.lease = ls[n]] ELSE st0.apps[n]]]

AuxNext(a, pre, line, post, scn) ==
  [down |-> DownNext(a.down, pre, line, post),
   decl |-> DeclNext(a.decl, pre, line, scn),
   lease |-> IF line.ev \in {"Submit", "RemoveApp"}
             THEN LeaseNext(a.lease, line, CanonScn(scn)) ELSE a.lease,
   marks |-> MarkNext(a.marks, pre, line),
   prio |-> IF line.ev \in {"Submit", "SetPrio", "RemoveApp"}
            THEN PrioNext(a.prio, line, CanonScn(scn)) ELSE a.prio,
   alloc |-> IF line.ev \in {"Submit", "Move", "RemoveApp"}
             THEN AllocNext(a.alloc, line, CanonScn(scn)) ELSE a.alloc]

(* C03 with the partition/traits the ENVIRONMENT assigned (not what the code  *)
(* believes the instance's allocation to be)                                   *)
C03declared(post, al, scn) ==
  \A a \in DOMAIN al \cap Placed(post) :
    LET s == post.apps[a].server x == scn.allocs[al[a]] IN
    s \in SrvNames(post) =>
      /\ post.servers[s].label = x.label
      /\ (post.apps[a].own \cup x.traits) \subseteq post.servers[s].traits

(* pre-state with the unschedule flags as the observer knows them (L1 traces):  *)
(* marked = the environment marked the instance on the server it is still on  *)
ObsMarksL2(pre, line) ==
  IF "obs_marks" \notin DOMAIN line THEN pre
  ELSE [pre EXCEPT !.apps = [n \in DOMAIN pre.apps |->
          IF n \in SetOf(line.obs_marks_unknown) THEN pre.apps[n]
          ELSE [pre.apps[n] EXCEPT !.unschedule =
                  (n \in DOMAIN line.obs_marks /\ line.obs_marks[n] = pre.apps[n].server)]]]

ObsMarks(pre, mk, kind) ==
  IF kind # "l1" THEN pre
  ELSE [pre EXCEPT !.apps = [n \in DOMAIN pre.apps |->
          [pre.apps[n] EXCEPT !.unschedule =
             (n \in DOMAIN mk /\ mk[n] # NoServer /\ mk[n] = pre.apps[n].server)]]]

CycleFail(rawpre, line, rawpost) ==
  LET pl == line.placement
      pre == IF aux.decl.on THEN Overlay(aux.decl, rawpre) ELSE OverlayL2(line, rawpre)
      post == IF aux.decl.on THEN Overlay(aux.decl, rawpost) ELSE OverlayL2(line, rawpost)
      opq == ObsPre(pre, aux, line, Traces[t])
      q == Flatten([k \in DOMAIN line.queues |-> FixQueue(opq, line.queues[k])]) IN
  F("C01.cap", C01cap(post)) \cup F("C01.free", C01free(post))
  \cup F("C01.single", C01single(post)) \cup F("C01.views", C01views(post))
  \cup F("C03.post", C03post(post)) \cup F("C03.assign", C03assign(ObsLease(post, aux.lease), pl))
  \cup F("C03.renew", C03renew(ObsLease(post, aux.lease), pl))
  \cup F("C03.leaseEnd", C03leaseEnd(ObsLease(post, aux.lease), pl))
  \cup F("C04.limit", C04limit(post)) \cup F("C04.counters", C04counters(post))
  \cup F("C05.unique", C05unique(post)) \cup F("C05.range", C05range(post))
  \cup F("C05.placedHas", C05placedHas(post)) \cup F("C05.pendingNone", C05pendingNone(post))
  \cup F("C05.avail", C05avail(post))
  \cup F("C07.justified", C07justified(pre, post, q))
  \cup F("C08.keep", C08keep(pre, post, q, aux.down)) \cup F("C08.expire", C08expire(pre, post, aux.down))
  \cup (IF aux.alloc # EmptyFn
        THEN F("C03.declared", C03declared(post, aux.alloc, CanonScn(Traces[t].scn))) ELSE {})
  \cup (IF "declared" \in DOMAIN line
        THEN F("C03.declared", \A a \in DOMAIN line.declared \cap Placed(post) :
                 post.apps[a].server \in SrvNames(post) =>
                   post.servers[post.apps[a].server].label = line.declared[a])
        ELSE {})
  \cup F("C08.frozenKeep", C08frozenKeep(IF Traces[t].kind = "l1" THEN ObsMarks(pre, aux.marks, "l1")
                                          ELSE ObsMarksL2(pre, line), post, q))
  \cup F("C08.frozenNoNew", C08frozenNoNew(pre, post))
  \cup F("C08.blacklist", C08blacklist(post))
  \cup (LET op == ObsPre(pre, aux, line, Traces[t]) IN
        F("C06.perm", C06perm(op, line.queues))
        \cup F("C06.rank", \A k \in DOMAIN line.queues : C06rank(line.queues[k]))
        \cup F("C06.prio", \A k \in DOMAIN line.queues : C06prio(op, line.queues[k]))
        \cup F("C06.zeroLast", \A k \in DOMAIN line.queues : C06zeroLast(op, line.queues[k]))
        \cup F("C06.boost", \A k \in DOMAIN line.queues : C06boost(op, line.queues[k]))
        \cup F("C06.cap", \A k \in DOMAIN line.queues : C06cap(op, line.queues[k], post))
        \cup F("C06.capOnly", \A k \in DOMAIN line.queues : C06capOnly(op, line.queues[k])))
  \cup F("drift.cycle", CycleExplained(rawpre, line.queues, rawpost))
  \cup F("drift.declared", pre = rawpre /\ post = rawpost)
  \cup F("C02.prune", C02prune(post))
  \cup (IF line.ev = "ProbeCycle" /\ line.quiet
        THEN F("C02.probe", C02probe(CapL2(line, pre), post, q, line.probe)) ELSE {})

CycleEx(pre, line, post) ==
  LET q == Flatten(line.queues) IN
  E("C01", Placed(post) # {}) \cup E("C03", C03ex(line.placement))
  \cup E("C04", C04ex(post)) \cup E("C05", C05ex(post))
  \cup E("C07", C07ex(pre, post, q)) \cup E("C08", C08ex(pre, post))
  \cup E("C06", \E k \in DOMAIN line.queues : C06ex(pre, line.queues[k]))
  \cup E("C02", line.ev = "ProbeCycle" /\ line.quiet /\ C02ex(pre, q, line.probe))
  \cup E("evict", \E a \in AppNames(pre) : a \in AppNames(post) /\ pre.apps[a].server # NoServer
                       /\ post.apps[a].server # pre.apps[a].server)

(* C01, units: what the loader made of a spelled record (L2 traces only) *)
UnitsOk(line, post) ==
  ("spells" \in DOMAIN line) =>
    \* the vector in the model is the meaning of one of the spellings registered
    \* for that server / written in that manifest (a record the master has not
    \* re-read yet is staleness, not a unit error)
    /\ \A s \in DOMAIN line.spells \cap SrvNames(post) :
          \E k \in DOMAIN line.spells[s] : post.servers[s].cap = SpelledVec(line.spells[s][k])
    /\ \A a \in DOMAIN line.spells \cap AppNames(post) :
          \E k \in DOMAIN line.spells[a] : post.apps[a].demand = SpelledVec(line.spells[a][k])

Verdict(pre, line, post) ==
  IF "exc" \in DOMAIN line
  THEN [fail |-> {"exc"}, ex |-> {}]
  ELSE IF line.ev \in {"Cycle", "ProbeCycle"}
  THEN [fail |-> CycleFail(pre, line, post) \cup F("C01.units", UnitsOk(line, post)),
        ex |-> CycleEx(pre, line, post) \cup E("units", "spells" \in DOMAIN line)]
  ELSE IF line.ev = "L2"
  THEN [fail |-> F("C02.prune", C02prune(post)) \cup F("C01.units", UnitsOk(line, post)), ex |-> {}]
  ELSE [fail |-> F("drift.env", EnvExplained(pre, line.ev, line.args, post, CanonScn(Traces[t].scn)))
                 \cup F("C02.prune", C02prune(post)), ex |-> {}]

Init == /\ t \in DOMAIN Traces
        /\ i = 1
        /\ st = Canon(Traces[t].lines[1].post)
        /\ aux = [down |-> DownOf(Canon(Traces[t].lines[1].post)), alloc |-> EmptyFn,
                  prio |-> EmptyFn, marks |-> EmptyFn, lease |-> EmptyFn,
                  decl |-> [on |-> Traces[t].kind = "l1", st |-> Canon(Traces[t].lines[1].post)]]

Next == /\ i < Len(Traces[t].lines)
        /\ i' = i + 1
        /\ t' = t
        /\ st' = Canon(Traces[t].lines[i + 1].post)
        /\ aux' = AuxNext(aux, st, Traces[t].lines[i + 1], st', Traces[t].scn)
        /\ LET v == Verdict(st, Traces[t].lines[i + 1], st') IN
           PrintT(ToJson([tid |-> Traces[t].tid, i |-> i, fail |-> v.fail, ex |-> v.ex]))

Spec == Init /\ [][Next]_<<t, i, st, aux>>
=============================================================================
