------------------------------- MODULE Reboot -------------------------------
(* State machine over RebootOps.tla for TLC (see RebootOps for the semantics). *)
EXTENDS RebootOps

CONSTANTS Srv, MaxSteps

VARIABLES buckets, last, now, vu, steps, ok

vars == <<buckets, last, now, vu, steps, ok>>

Init == LET t == DoTick(<<>>, 3600, 3600) IN
        /\ buckets = t.buckets /\ last = t.last /\ now = 3600
        /\ vu = [s \in Srv |-> 0] /\ steps = 0 /\ ok = TRUE

Add(s, upSince, pin) ==
  /\ steps < MaxSteps
  /\ LET wanted == IF pin THEN vu[s] ELSE 0
         r == DoAdd(buckets, s, upSince, wanted) IN
     /\ ok' = AddOk(buckets, upSince, wanted, r.vu)
     /\ buckets' = r.buckets /\ vu' = [vu EXCEPT ![s] = r.vu]
  /\ steps' = steps + 1 /\ UNCHANGED <<last, now>>

Remove(s) == /\ steps < MaxSteps /\ buckets' = DoRemove(buckets, s) /\ steps' = steps + 1
             /\ UNCHANGED <<last, now, vu, ok>>

Tick(d) == /\ steps < MaxSteps
           /\ LET t == DoTick(buckets, last, now + d) IN
              buckets' = t.buckets /\ last' = t.last
           /\ now' = now + d /\ steps' = steps + 1 /\ UNCHANGED <<vu, ok>>

AddAged(s, age, pin) == Add(s, now - age, pin)

Next == \/ \E s \in Srv, age \in {0, 12 * 3600, 2 * Day, 20 * Day, 22 * Day}, pin \in BOOLEAN :
             AddAged(s, age, pin)
        \/ \E s \in Srv : Remove(s)
        \/ \E d \in {3600, Day, 3 * Day} : Tick(d)

Spec == Init /\ [][Next]_vars

InvAddOk == ok
(* the horizon always reaches 21 days ahead and holds no date in the past *)
InvHorizon == /\ buckets # <<>> /\ buckets[1].ts >= now
              /\ buckets[Len(buckets)].ts > now + MaxUptime
              /\ \A i \in 1..(Len(buckets) - 1) : buckets[i + 1].ts = buckets[i].ts + Day
=============================================================================
