---- MODULE MC_Reboot ----
EXTENDS Reboot
McSrv == {"s1", "s2", "s3"}
====
