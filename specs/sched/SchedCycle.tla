---------------------------- MODULE SchedCycle ----------------------------
(* The scheduler's behaviour as successor FUNCTIONS over the abstract state  *)
(* (DESIGN.md 3.1): environment events (EnvDo) and one scheduling cycle     *)
(* (RunCycle), transcribed from scheduler/__init__.py (appendix A).         *)
(* Sched.tla turns them into a next-state relation for TLC; SchedTrace.tla  *)
(* uses the very same operators as predicates over a logged (pre, post).    *)
(*                                                                          *)
(* Open choices (which eligible server Cell.put reaches first, which free   *)
(* identity set.pop() returns) are parameters: `hs` maps an instance to the *)
(* server it is to be put on, `hi` to the identity it is to acquire. TLC    *)
(* quantifies over them in Sched.tla; in trace validation they are read off *)
(* the observed post-state.                                                 *)
(*                                                                          *)
(* Defects: the set of code defects the model should REPRODUCE (see         *)
(* DESIGN.md section 7); {} = the repaired behaviour.                       *)
EXTENDS SchedCore

CONSTANT Defects

-----------------------------------------------------------------------------
(* primitive updates                                                        *)

AddVec(u, v) == [d \in DOMAIN u |-> u[d] + v[d]]
SubVec(u, v) == [d \in DOMAIN u |-> u[d] - v[d]]
AnyGt(u, v) == \E d \in DOMAIN u : u[d] > v[d]
AllGe(u, v) == \A d \in DOMAIN u : u[d] >= v[d]
AllLe(u, v) == \A d \in DOMAIN u : u[d] <= v[d]

BumpCtr(node, f, delta) ==
  LET cur == Ctr(node, f)
      dom == DOMAIN node.ctr \cup {f}
      new == [g \in dom |-> IF g = f THEN cur + delta ELSE node.ctr[g]]
  IN [node EXCEPT !.ctr = [g \in {h \in dom : new[h] # 0} |-> new[g]]]

(* counters of server s and of every bucket above it *)
BumpPath(st, s, f, delta) ==
  LET anc == AncOf(st, s) IN
  [st EXCEPT !.servers[s] = BumpCtr(@, f, delta),
             !.buckets = [b \in DOMAIN @ |-> IF b \in anc THEN BumpCtr(@[b], f, delta) ELSE @[b]]]

(* Server.remove *)
SrvRemove(st, a) ==
  LET s == st.apps[a].server
      s1 == [st EXCEPT !.servers[s].apps = @ \ {a},
                       !.servers[s].free = AddVec(@, st.apps[a].demand),
                       !.apps[a].server = NoServer,
                       !.apps[a].evicted = TRUE,
                       !.apps[a].unschedule = FALSE,
                       !.apps[a].expiry = NoNum]
  IN BumpPath(s1, s, st.apps[a].aff, -1)

LimitOk(st, a, n) ==
  LET lim == Limit(st.apps[a], LevelOf(st, n)) IN
  lim = NoNum \/ Ctr(NodeRec(st, n), st.apps[a].aff) < lim

(* Server.put succeeds (checkLife = FALSE inside Server.restore) *)
SrvPutOk(st, a, s, checkLife) ==
  /\ (checkLife => LifetimeOk(st, a, s))
  /\ FitsPartition(st, a, s)
  /\ LimitOk(st, a, s)
  /\ ~AnyGt(st.apps[a].demand, st.servers[s].free)

AncLimitsOk(st, a, s) == \A b \in AncOf(st, s) : LimitOk(st, a, b)

SrvPut(st, a, s, lease) ==
  LET s1 == [st EXCEPT !.servers[s].apps = @ \cup {a},
                       !.servers[s].free = SubVec(@, st.apps[a].demand),
                       !.apps[a].server = s,
                       !.apps[a].expiry = IF @ = NoNum THEN st.clock + lease ELSE @]
  IN BumpPath(s1, s, st.apps[a].aff, 1)

(* Server.restore(app, exp): put without lifetime check, then expiry := exp *)
(* (also when the put failed).  Returns [ok, st].                            *)
SrvRestore(st, a, s, exp) ==
  LET e == IF exp = NoNum THEN st.apps[a].expiry ELSE exp IN
  IF SrvPutOk(st, a, s, FALSE)
  THEN [ok |-> TRUE, st |-> [SrvPut(st, a, s, 0) EXCEPT !.apps[a].expiry = e]]
  ELSE [ok |-> FALSE, st |-> [st EXCEPT !.apps[a].expiry = e]]

HasGroup(st, a) == st.apps[a].group # ""

(* Application.release_identity / IdentityGroup.release *)
Release(st, a) ==
  IF HasGroup(st, a) /\ st.apps[a].identity # NoNum /\ st.apps[a].group \notin DOMAIN st.groups
  THEN [st EXCEPT !.apps[a].identity = NoNum]
  ELSE IF HasGroup(st, a) /\ st.apps[a].identity # NoNum
  THEN LET g == st.apps[a].group id == st.apps[a].identity IN
       [st EXCEPT !.apps[a].identity = NoNum,
                  !.groups[g].available = IF id < st.groups[g].count THEN @ \cup {id} ELSE @]
  ELSE st

RemoveAndRelease(st, a) == Release(SrvRemove(st, a), a)

(* eligible leaf servers for Cell.put: up, Server.put passes, affinity     *)
(* head-room at every bucket above (aggregated label/trait/capacity checks  *)
(* only prune, Buckets.tla shows they never hide a server that fits)        *)
Eligible(st, a) ==
  {s \in SrvNames(st) : /\ st.servers[s].state = "up"
                        /\ SrvPutOk(st, a, s, TRUE)
                        /\ AncLimitsOk(st, a, s)}

-----------------------------------------------------------------------------
(* pre-passes of Cell.schedule                                              *)

(* apply Op(st, a) for every a in set S (order irrelevant: ops commute) *)
FoldApps(Op(_, _), st, S) == FoldSet(LAMBDA a, acc : Op(acc, a), st, S)

Misplaced(st, a) ==
  /\ st.apps[a].server \in SrvNames(st)
  /\ ~FitsPartition(st, a, st.apps[a].server)

FixInvalidPlacements(st) ==
  LET gone == {a \in AppNames(st) : st.apps[a].server # NoServer
                                     /\ st.apps[a].server \notin SrvNames(st)}
      mis == IF "no_partition_fix" \in Defects THEN {}
             ELSE {a \in AppNames(st) : st.apps[a].server # NoServer /\ Misplaced(st, a)}
      s1 == FoldApps(LAMBDA s, a : Release([s EXCEPT !.apps[a].server = NoServer,
                                                      !.apps[a].evicted = TRUE], a),
                     st, gone)
  IN FoldApps(RemoveAndRelease, s1, mis)

HandleInactive(st) ==
  LET expired == {a \in AppNames(st) :
                    /\ st.apps[a].server \in SrvNames(st)
                    /\ st.servers[st.apps[a].server].state = "down"
                    /\ RetentionEnd(st, a) <= st.clock}
      unsched == {a \in AppNames(st) :
                    /\ st.apps[a].server \in SrvNames(st)
                    /\ st.servers[st.apps[a].server].state = "frozen"
                    /\ st.apps[a].unschedule}
      \* Cell.next_event_at: the earliest moment a retained placement on a down
      \* server runs out of its data retention (NoNum = none), recomputed by
      \* every cycle; the master uses it to wake up
      kept == {a \in AppNames(st) :
                 /\ st.apps[a].server \in SrvNames(st)
                 /\ st.servers[st.apps[a].server].state = "down"
                 /\ RetentionEnd(st, a) > st.clock}
      ends == {RetentionEnd(st, a) : a \in kept}
      nea == IF ends = {} THEN NoNum ELSE CHOOSE e \in ends : \A f \in ends : e <= f
  IN [FoldApps(RemoveAndRelease, st, expired \cup unsched) EXCEPT !.nea = nea]

HandleBlacklisted(st) ==
  FoldApps(RemoveAndRelease, st,
           {a \in AppNames(st) : st.apps[a].blacklisted /\ st.apps[a].server # NoServer})

FixInvalidIdentities(st) ==
  LET bad == {a \in AppNames(st) : /\ HasGroup(st, a) /\ st.apps[a].identity # NoNum
                                   /\ st.apps[a].identity >= GroupCount(st, st.apps[a].group)}
  IN FoldApps(LAMBDA s, a :
                LET s1 == [s EXCEPT !.apps[a].identity = NoNum] IN
                IF s1.apps[a].server # NoServer THEN SrvRemove(s1, a) ELSE s1,
              st, bad)

PrePasses(st) == FixInvalidIdentities(HandleBlacklisted(HandleInactive(FixInvalidPlacements(st))))

-----------------------------------------------------------------------------
(* _find_placements.  x = [st, ev (evicted map), tr (tracker), ok]           *)

Shape(st, a) ==
  <<st.apps[a].aff, st.apps[a].limits, st.apps[a].lease,
    IF "shape_no_traits" \in Defects THEN {} ELSE st.apps[a].traits>>

Infeasible(x, a) ==
  LET sh == Shape(x.st, a) IN
  sh \in DOMAIN x.tr /\ AllGe(x.st.apps[a].demand, x.tr[sh])

TrackFail(x, a) ==
  LET sh == Shape(x.st, a) dem == x.st.apps[a].demand IN
  IF sh \notin DOMAIN x.tr
  THEN [x EXCEPT !.tr = [k \in DOMAIN x.tr \cup {sh} |-> IF k = sh THEN dem ELSE x.tr[k]]]
  ELSE IF AllLe(dem, x.tr[sh]) THEN [x EXCEPT !.tr[sh] = dem] ELSE x

(* eviction scan: victims from the tail of q down to (excluding) position k *)
RECURSIVE EvictScan(_, _, _, _, _)
EvictScan(x, q, k, j, a) ==
  IF j <= k THEN x
  ELSE
    LET v == q[j][1] IN
    IF v \notin AppNames(x.st) \/ x.st.apps[v].server \notin SrvNames(x.st)
       \/ x.st.servers[x.st.apps[v].server].state # "up"
    THEN EvictScan(x, q, k, j - 1, a)
    ELSE
      LET s == x.st.apps[v].server
          x1 == [x EXCEPT !.ev = [w \in DOMAIN x.ev \cup {v} |->
                                    IF w = v THEN <<s, x.st.apps[v].expiry>> ELSE x.ev[w]],
                          !.st = SrvRemove(x.st, v)]
          fits == /\ SrvPutOk(x1.st, a, s, TRUE)
                  /\ ("evict_no_ancestors" \in Defects \/ AncLimitsOk(x1.st, a, s))
      IN IF fits THEN [x1 EXCEPT !.st = SrvPut(x1.st, a, s, x1.st.apps[a].lease)]
         ELSE EvictScan(x1, q, k, j - 1, a)

(* identity acquisition; hi[a] is the identity to take when one is needed  *)
Acquire(st, a, hi) ==
  IF ~HasGroup(st, a) \/ st.apps[a].identity # NoNum
  THEN [ok |-> TRUE, st |-> st, good |-> TRUE, used |-> FALSE]
  ELSE LET g == st.apps[a].group
           av == IF g \in DOMAIN st.groups THEN st.groups[g].available ELSE {} IN
       IF av = {} THEN [ok |-> FALSE, st |-> st, good |-> TRUE, used |-> FALSE]
       ELSE LET id == IF hi[a] \in av THEN hi[a] ELSE CHOOSE z \in av : TRUE IN
            [ok |-> TRUE, good |-> hi[a] \in av, used |-> TRUE,
             st |-> [st EXCEPT !.apps[a].identity = id, !.groups[g].available = @ \ {id}]]

SkipRelease(st, a) == IF "identity_kept_on_skip" \in Defects THEN st ELSE Release(st, a)

StepApp(x, q, k, hs, hi) ==
  LET a == q[k][1] rank == q[k][2] st0 == x.st IN
  IF a \notin AppNames(st0) THEN x
  ELSE IF st0.apps[a].blacklisted THEN [x EXCEPT !.st = SkipRelease(st0, a)]
  ELSE IF rank = UnplacedRank
  THEN IF st0.apps[a].server # NoServer THEN [x EXCEPT !.st = RemoveAndRelease(st0, a)]
       ELSE [x EXCEPT !.st = SkipRelease(st0, a)]
  ELSE
    LET s0 == st0.apps[a].server
        renewing == st0.apps[a].renew /\ s0 \in SrvNames(st0)
        canRenew == renewing /\ LifetimeOk(st0, a, s0)
        rest == IF renewing /\ ~canRenew THEN <<s0, st0.apps[a].expiry>> ELSE <<>>
        st1 == IF canRenew THEN [st0 EXCEPT !.apps[a].expiry = st0.clock + st0.apps[a].lease]
               ELSE IF renewing THEN SrvRemove(st0, a) ELSE st0
        st2 == [st1 EXCEPT !.apps[a].renew = FALSE]
    IN
    IF st2.apps[a].server # NoServer THEN [x EXCEPT !.st = st2]
    ELSE
      LET acq == Acquire(st2, a, hi) IN
      IF ~acq.ok THEN [x EXCEPT !.st = st2]
      ELSE
        LET x3 == [x EXCEPT !.st = acq.st, !.ok = @ /\ acq.good, !.usedI = @ \/ acq.used]
            wasEvicted == a \in DOMAIN x3.ev
            rs == IF wasEvicted
                  THEN IF "evict_no_ancestors" \in Defects \/ AncLimitsOk(x3.st, a, x3.ev[a][1])
                       THEN SrvRestore(x3.st, a, x3.ev[a][1], x3.ev[a][2])
                       ELSE [ok |-> FALSE, st |-> x3.st]
                  ELSE [ok |-> FALSE, st |-> x3.st]
            x4 == IF wasEvicted
                  THEN [x3 EXCEPT !.ev = [w \in DOMAIN @ \ {a} |-> @[w]], !.st = rs.st]
                  ELSE x3
        IN
        IF rs.ok THEN [x4 EXCEPT !.st.apps[a].evicted = FALSE]
        ELSE IF x4.st.apps[a].once /\ x4.st.apps[a].evicted
        THEN [x4 EXCEPT !.st = SkipRelease(@, a)]
        ELSE IF Infeasible(x4, a) THEN [x4 EXCEPT !.st = SkipRelease(@, a)]
        ELSE
          LET el == Eligible(x4.st, a)
              x5 == IF el # {}
                    THEN LET s == IF hs[a] \in el THEN hs[a] ELSE CHOOSE z \in el : TRUE IN
                         [x4 EXCEPT !.st = SrvPut(x4.st, a, s, x4.st.apps[a].lease),
                                    !.ok = @ /\ hs[a] \in el, !.usedS = TRUE]
                    ELSE EvictScan(x4, q, k, Len(q), a)
          IN
          IF x5.st.apps[a].server # NoServer THEN x5
          ELSE IF rest # <<>>
          THEN [x5 EXCEPT !.st = [SrvRestore(x5.st, a, rest[1], rest[2]).st
                                    EXCEPT !.apps[a].renew = TRUE]]
          ELSE TrackFail([x5 EXCEPT !.st = Release(@, a)], a)

RECURSIVE RunQueue(_, _, _, _, _)
RunQueue(x, q, k, hs, hi) ==
  IF k > Len(q) THEN x ELSE RunQueue(StepApp(x, q, k, hs, hi), q, k + 1, hs, hi)

EmptyFn == [z \in {} |-> 0]

RECURSIVE RunPartitions(_, _, _, _, _)
RunPartitions(st, ok, qs, hs, hi) ==
  IF qs = <<>> THEN [st |-> st, ok |-> ok]
  ELSE LET x == RunQueue([st |-> st, ev |-> EmptyFn, tr |-> EmptyFn, ok |-> ok,
                          usedS |-> FALSE, usedI |-> FALSE],
                         Head(qs), 1, hs, hi)
       IN RunPartitions(x.st, x.ok, Tail(qs), hs, hi)

(* qs: the cycle's queues, one per partition, each a sequence of <<name, rank>> *)
RunCycle(st, qs, hs, hi) == RunPartitions(PrePasses(st), TRUE, qs, hs, hi)

-----------------------------------------------------------------------------
(* what of the state a cycle / an event determines (bucket aggregates other  *)
(* than the affinity counters are the subject of Buckets.tla, `order` is an  *)
(* opaque arrival stamp)                                                    *)
ProjApp(r) == [r EXCEPT !.order = 0]
ProjBkt(r) == [level |-> r.level, parent |-> r.parent, ctr |-> r.ctr]
Proj(st) == [clock |-> st.clock, servers |-> st.servers,
             buckets |-> [b \in DOMAIN st.buckets |-> ProjBkt(st.buckets[b])],
             apps |-> [a \in DOMAIN st.apps |-> ProjApp(st.apps[a])],
             groups |-> st.groups, allocs |-> st.allocs, nea |-> st.nea]

HintS(post) == [a \in AppNames(post) |-> post.apps[a].server]
HintI(post) == [a \in AppNames(post) |-> post.apps[a].identity]

CycleExplained(pre, qs, post) ==
  LET r == RunCycle(pre, qs, HintS(post), HintI(post)) IN
  Proj(r.st) = Proj(post)
=============================================================================
