------------------------------ MODULE Buckets ------------------------------
(* The incrementally maintained free-capacity aggregate of racks and the     *)
(* cell (scheduler/__init__.py: Bucket.adjust_capacity_up/down, add_node,    *)
(* remove_node, Server.put/remove/set_state), transcribed operation by       *)
(* operation, and the property that makes C02 possible: the aggregate of a   *)
(* bucket may over-approximate but is never below the free capacity of an up *)
(* server underneath it, so pruning on it never hides a server that fits.    *)
EXTENDS Naturals, FiniteSets, TLC

CONSTANTS Racks, Servers, RackOf, Dims, MaxCap, MaxOps

VARIABLES srv,     \* [Servers -> [in, up, cap, free]]
          rack,    \* [Racks -> free vector]
          cell,    \* free vector
          ops

vars == <<srv, rack, cell, ops>>

Vec == [Dims -> 0..MaxCap]
Zero == [d \in Dims |-> 0]
MaxV(u, v) == [d \in Dims |-> IF u[d] >= v[d] THEN u[d] ELSE v[d]]
AllLt(u, v) == \A d \in Dims : u[d] < v[d]
AnyLt(u, v) == \E d \in Dims : u[d] < v[d]

Children(r) == {s \in Servers : RackOf[s] = r /\ srv[s].in}

Init == /\ srv = [s \in Servers |-> [in |-> FALSE, up |-> TRUE, cap |-> Zero, free |-> Zero]]
        /\ rack = [r \in Racks |-> Zero]
        /\ cell = Zero
        /\ ops = 0

(* max over up children, computed with the children as given *)
RECURSIVE MaxOver(_, _)
MaxOver(S, f) == IF S = {} THEN Zero
                 ELSE LET x == CHOOSE y \in S : TRUE IN MaxV(f[x], MaxOver(S \ {x}, f))

(* Bucket.adjust_capacity_down for the cell, given the racks' values *)
CellDown(rk, c, prev, hasPrev) ==
  IF hasPrev /\ AllLt(prev, c) THEN c
  ELSE LET new == MaxOver(Racks, rk) IN IF AnyLt(new, c) THEN new ELSE c

(* Bucket.adjust_capacity_down for rack r after its children changed to sv;   *)
(* returns [rack, cell]                                                      *)
RackDown(sv, rk, c, r, prev, hasPrev) ==
  LET kids == {s \in Servers : RackOf[s] = r /\ sv[s].in} IN
  IF kids = {}
  THEN LET rk1 == [rk EXCEPT ![r] = Zero] IN [rack |-> rk1, cell |-> CellDown(rk1, c, Zero, FALSE)]
  ELSE IF hasPrev /\ AllLt(prev, rk[r]) THEN [rack |-> rk, cell |-> c]
  ELSE LET new == MaxOver({s \in kids : sv[s].up}, [s \in Servers |-> sv[s].free]) IN
       IF AnyLt(new, rk[r])
       THEN LET rk1 == [rk EXCEPT ![r] = new] IN
            [rack |-> rk1, cell |-> CellDown(rk1, c, rk[r], TRUE)]
       ELSE [rack |-> rk, cell |-> c]

(* Bucket.adjust_capacity_up *)
RackUp(rk, c, r, v) ==
  LET rk1 == [rk EXCEPT ![r] = MaxV(@, v)] IN [rack |-> rk1, cell |-> MaxV(c, rk1[r])]

Step == ops < MaxOps /\ ops' = ops + 1

AddServer(s, cap) ==
  /\ Step /\ ~srv[s].in
  /\ srv' = [srv EXCEPT ![s] = [in |-> TRUE, up |-> TRUE, cap |-> cap, free |-> cap]]
  /\ LET r == RackUp(rack, cell, RackOf[s], cap) IN rack' = r.rack /\ cell' = r.cell

(* loader.remove_server: remove_all() (each removal adjusts up) then remove_node *)
RemoveServer(s) ==
  /\ Step /\ srv[s].in
  /\ LET u == RackUp(rack, cell, RackOf[s], srv[s].cap)   \* free is back to cap
         sv == [srv EXCEPT ![s] = [in |-> FALSE, up |-> TRUE, cap |-> Zero, free |-> Zero]]
         r == RackDown(sv, u.rack, u.cell, RackOf[s], srv[s].cap, TRUE)
     IN /\ srv' = sv /\ rack' = r.rack /\ cell' = r.cell

SetUp(s) ==
  /\ Step /\ srv[s].in /\ ~srv[s].up
  /\ srv' = [srv EXCEPT ![s].up = TRUE]
  /\ LET r == RackUp(rack, cell, RackOf[s], srv[s].free) IN rack' = r.rack /\ cell' = r.cell

SetNotUp(s) ==
  /\ Step /\ srv[s].in /\ srv[s].up
  /\ LET sv == [srv EXCEPT ![s].up = FALSE]
         r == RackDown(sv, rack, cell, RackOf[s], srv[s].free, TRUE)
     IN /\ srv' = sv /\ rack' = r.rack /\ cell' = r.cell

Put(s, dem) ==
  /\ Step /\ srv[s].in /\ dem # Zero /\ \A d \in Dims : dem[d] <= srv[s].free[d]
  /\ LET sv == [srv EXCEPT ![s].free = [d \in Dims |-> @[d] - dem[d]]]
         r == RackDown(sv, rack, cell, RackOf[s], srv[s].free, TRUE)
     IN /\ srv' = sv /\ rack' = r.rack /\ cell' = r.cell

Remove(s, dem) ==
  /\ Step /\ srv[s].in /\ dem # Zero /\ \A d \in Dims : srv[s].free[d] + dem[d] <= srv[s].cap[d]
  /\ LET sv == [srv EXCEPT ![s].free = [d \in Dims |-> @[d] + dem[d]]]
         r == RackUp(rack, cell, RackOf[s], sv[s].free)
     IN /\ srv' = sv /\ rack' = r.rack /\ cell' = r.cell

Next == \/ \E s \in Servers, c \in Vec : AddServer(s, c)
        \/ \E s \in Servers : RemoveServer(s)
        \/ \E s \in Servers : SetUp(s)
        \/ \E s \in Servers : SetNotUp(s)
        \/ \E s \in Servers, d \in Vec : Put(s, d)
        \/ \E s \in Servers, d \in Vec : Remove(s, d)

Spec == Init /\ [][Next]_vars

(* pruning soundness *)
Sound ==
  \A s \in Servers : (srv[s].in /\ srv[s].up) =>
    \A d \in Dims : /\ rack[RackOf[s]][d] >= srv[s].free[d]
                    /\ cell[d] >= srv[s].free[d]
=============================================================================
