------------------------------- MODULE Sched -------------------------------
(* The scheduler as a state machine for TLC: environment events interleaved  *)
(* with scheduling cycles.  A cycle is stepped per queue element (BeginCycle,*)
(* Step*, EndCycle) so that every open choice of the implementation (which   *)
(* eligible server Cell.put reaches, which free identity set.pop() returns,  *)
(* how equal-rank instances of different allocations interleave) is a        *)
(* separately explored alternative.  All state changes are the successor     *)
(* functions of SchedEnv/SchedCycle - the same ones the trace specification  *)
(* uses to judge recorded executions of the real code.                       *)
EXTENDS SchedEnv, SequencesExt

CONSTANTS AProfiles, SProfiles, SParent, Allocs, BParent, BLevel, ServerInit, GroupsInit,
          AppIds,        \* instance names that may be submitted
          AppSeq,        \* the same as a sequence: names are handed out in this order (symmetry)
          ProfIds,       \* indices of AProfiles offered to Submit
          Events,        \* names of the environment events enabled in this configuration
          MaxEvents,     \* environment events per behaviour
          MaxCycles,
          Ticks,         \* clock increments offered to Tick
          Counts,        \* identity-group sizes offered to SetCount
          Prios,         \* priorities offered to SetPrio
          LabelSeq       \* partition labels in the order the cell iterates them

VARIABLES st, cy, n

vars == <<st, cy, n>>

Scn == [aprofiles |-> AProfiles, sprofiles |-> SProfiles, sparent |-> SParent, allocs |-> Allocs]

AllServers == DOMAIN ServerInit
Idle0 == [phase |-> "idle", fresh |-> FALSE, hold |-> FALSE, probe |-> ""]

InitSrv(s) == LET sp == SProfiles[ServerInit[s]] IN
  [cap |-> sp.cap, free |-> sp.cap, state |-> "up", since |-> 0, label |-> sp.label,
   traits |-> sp.traits, vu |-> sp.vu, parent |-> SParent[s], apps |-> {}, ctr |-> EmptyFn]

Init ==
  /\ st = [clock |-> 0, nea |-> NoNum,
           servers |-> [s \in {x \in AllServers : ServerInit[x] # 0} |-> InitSrv(s)],
           buckets |-> [b \in DOMAIN BParent |->
                          [level |-> BLevel[b], parent |-> BParent[b], ctr |-> EmptyFn]],
           apps |-> EmptyFn,
           groups |-> [g \in DOMAIN GroupsInit |->
                         [count |-> GroupsInit[g], available |-> 0..(GroupsInit[g] - 1)]],
           allocs |-> [x \in DOMAIN Allocs |->
                         [rank |-> Allocs[x].rank, adj |-> Allocs[x].adj,
                          reserved |-> Allocs[x].reserved, maxutil |-> Allocs[x].maxutil,
                          label |-> Allocs[x].label]]]
  /\ cy = Idle0
  /\ n = [ev |-> 0, cyc |-> 0]

-----------------------------------------------------------------------------
(* the queue (appendix E), exact in rank/boost/cap, open in the float-valued  *)
(* utilisation order of equal-rank instances of different allocations         *)
Pending(s, a) == IF s.apps[a].server = NoServer THEN 1 ELSE 0
AppLess(s, a, b) ==
  \/ s.apps[a].prio > s.apps[b].prio
  \/ /\ s.apps[a].prio = s.apps[b].prio
     /\ \/ Pending(s, a) < Pending(s, b)
        \/ Pending(s, a) = Pending(s, b) /\ s.apps[a].order < s.apps[b].order

RECURSIVE RankSeq(_, _, _, _, _)
RankSeq(s, al, seq, k, acc) ==
  IF k > Len(seq) THEN <<>>
  ELSE LET a == seq[k]
           after == AddVec(acc, s.apps[a].demand)
           zero == s.apps[a].prio = 0
           within == IF zero THEN al.maxutil = NoNum
                     ELSE al.maxutil = NoNum
                          \* util_after <= m - 1  <=>  after[d] <= m*res[d] + (m-1)*eps for all d:
                          \* for a whole m >= 1 that is after[d] <= m*res[d]; for m = 0 it never holds
                          \/ (al.maxutil >= 1
                              /\ \A d \in DOMAIN after : after[d] <= al.maxutil * al.reserved[d])
           boosted == ~zero /\ \A d \in DOMAIN acc : acc[d] < al.reserved[d]
           rank == IF ~within THEN UnplacedRank
                   ELSE IF boosted THEN al.rank - al.adj ELSE al.rank
       IN <<<<a, rank, s.apps[a].server # NoServer>>>> \o RankSeq(s, al, seq, k + 1, after)

PrivQueue(s, x) ==
  LET members == {a \in AppNames(s) : s.apps[a].alloc = x}
      zero == [d \in DOMAIN Allocs[x].reserved |-> 0]
  IN RankSeq(s, Allocs[x], SetToSortSeq(members, LAMBDA a, b : AppLess(s, a, b)), 1, zero)

RankKey(r) == IF r = UnplacedRank THEN 1000000 ELSE r

(* equal-rank heads interleave freely (float utilisation), except that a       *)
(* priority-0 instance carries utilisation +infinity and so yields to every    *)
(* other head of its rank                                                      *)
RECURSIVE Merges(_, _)
Merges(s, seqs) ==
  LET heads == {x \in DOMAIN seqs : seqs[x] # <<>>} IN
  IF heads = {} THEN {<<>>}
  ELSE LET minr == CHOOSE r \in {RankKey(Head(seqs[x])[2]) : x \in heads} :
                     \A y \in heads : r <= RankKey(Head(seqs[y])[2])
           cands0 == {x \in heads : RankKey(Head(seqs[x])[2]) = minr}
           nonzero == {x \in cands0 : s.apps[Head(seqs[x])[1]].prio > 0}
           cands == IF nonzero # {} THEN nonzero ELSE cands0
       IN UNION {{<<Head(seqs[x])>> \o m : m \in Merges(s, [seqs EXCEPT ![x] = Tail(@)])}
                 : x \in cands}

Labels == {Allocs[x].label : x \in DOMAIN Allocs}

PartQueues(s, label) ==
  Merges(s, [x \in {y \in DOMAIN Allocs : Allocs[y].label = label} |-> PrivQueue(s, x)])

-----------------------------------------------------------------------------
(* environment events                                                       *)
Env(ev, args) ==
  /\ cy.phase = "idle" /\ ~cy.hold
  /\ ev \in Events
  /\ n.ev < MaxEvents
  /\ st' = EnvDo(st, ev, args, Scn)
  /\ cy' = Idle0
  /\ n' = [n EXCEPT !.ev = @ + 1]

FirstFree == LET free == {j \in DOMAIN AppSeq : AppSeq[j] \notin AppNames(st)} IN
             IF free = {} THEN "" ELSE AppSeq[CHOOSE j \in free : \A k \in free : j <= k]
(* the last completed cycle changed nothing *)
QuietNow == /\ cy.phase = "idle" /\ cy.fresh
            /\ \A a \in AppNames(st) : a \in AppNames(cy.pre)
                  /\ cy.pre.apps[a].server = st.apps[a].server
                  /\ cy.pre.apps[a].expiry = st.apps[a].expiry
Submit(a, p) ==
  /\ a = FirstFree
  /\ cy.phase = "idle" /\ ~cy.hold /\ "Submit" \in Events /\ n.ev < MaxEvents
  /\ st' = EnvDo(st, "Submit", <<a, p>>, Scn)
  /\ cy' = IF QuietNow THEN [Idle0 EXCEPT !.probe = a] ELSE Idle0
  /\ n' = [n EXCEPT !.ev = @ + 1]
RemoveApp(a) == Env("RemoveApp", <<a>>)
SetPrio(a, p) == st.apps[a].prio # p /\ Env("SetPrio", <<a, p>>)
Move(a, x) == st.apps[a].alloc # x /\ Env("Move", <<a, x>>)
Down(s) == st.servers[s].state # "down" /\ Env("Down", <<s>>)
Up(s) == st.servers[s].state # "up" /\ Env("Up", <<s>>)
Freeze(s) == st.servers[s].state # "frozen" /\ Env("Freeze", <<s>>)
MarkUnschedule(a) ==
  /\ st.apps[a].server \in SrvNames(st) /\ ~st.apps[a].unschedule
  /\ st.servers[st.apps[a].server].state = "frozen"
  /\ Env("MarkUnschedule", <<a>>)
RemoveServer(s) == Env("RemoveServer", <<s>>)
AddServer(s, p) == s \in AllServers \ SrvNames(st) /\ Env("AddServer", <<s, p>>)
SetVu(s, v) == st.servers[s].vu # v /\ Env("SetVu", <<s, v>>)
Blacklist(a) == ~st.apps[a].blacklisted /\ Env("Blacklist", <<a>>)
Unblacklist(a) == st.apps[a].blacklisted /\ Env("Unblacklist", <<a>>)
SetCount(g, c) == (IF g \in DOMAIN st.groups THEN st.groups[g].count # c ELSE TRUE)
                  /\ Env("SetCount", <<g, c>>)
DelGroup(g) == g \in DOMAIN st.groups /\ Env("DelGroup", <<g>>)
Tick(d) == Env("Tick", <<d>>)
(* a renewal request is only ever followed by the cycle that serves it       *)
Renew(a) ==
  /\ cy.phase = "idle" /\ "Renew" \in Events /\ n.ev < MaxEvents
  /\ st.apps[a].server \in SrvNames(st) /\ ~st.apps[a].renew /\ ~st.apps[a].blacklisted
  /\ st.servers[st.apps[a].server].state = "up"
  /\ IdentityValid(st, a) /\ Allocs[st.apps[a].alloc].maxutil = NoNum
  /\ st.apps[a].lease > 0
  /\ st' = EnvDo(st, "Renew", <<a>>, Scn)
  /\ cy' = [Idle0 EXCEPT !.hold = TRUE]
  /\ n' = [n EXCEPT !.ev = @ + 1]

-----------------------------------------------------------------------------
(* one scheduling cycle                                                     *)
RECURSIVE QueueChoices(_, _)
QueueChoices(s, labels) ==
  IF labels = <<>> THEN {<<>>}
  ELSE {IF q = <<>> THEN rest ELSE <<q>> \o rest :
          q \in PartQueues(s, Head(labels)), rest \in QueueChoices(s, Tail(labels))}

Finished(c) == c.p > Len(c.qs)

CycleQ(qs) ==
  /\ cy.phase = "idle"
  /\ n.cyc < MaxCycles
  /\ LET s1 == PrePasses(st) IN
     /\ st' = s1
     /\ cy' = IF qs = <<>>
              THEN [phase |-> "idle", fresh |-> TRUE, hold |-> FALSE, pre |-> st, qs |-> qs,
                    probe |-> cy.probe]
              ELSE [phase |-> "run", fresh |-> FALSE, hold |-> FALSE, pre |-> st, qs |-> qs,
                    p |-> 1, k |-> 1, ev |-> EmptyFn, tr |-> EmptyFn, probe |-> cy.probe]
  /\ n' = [n EXCEPT !.cyc = @ + 1]

Cycle == \E qs \in QueueChoices(PrePasses(st), LabelSeq) : CycleQ(qs)

Step(s, id) ==
  /\ cy.phase = "run"
  /\ LET q == cy.qs[cy.p]
         a == q[cy.k][1]
         x0 == [st |-> st, ev |-> cy.ev, tr |-> cy.tr, ok |-> TRUE,
                usedS |-> FALSE, usedI |-> FALSE]
         x1 == StepApp(x0, q, cy.k, [z \in {a} |-> s], [z \in {a} |-> id])
         lastOfQ == cy.k = Len(q)
         lastQ == cy.p = Len(cy.qs)
     IN /\ x1.ok
        /\ (~x1.usedS => s = NoServer)
        /\ (~x1.usedI => id = NoNum)
        /\ st' = x1.st
        /\ cy' = IF lastOfQ /\ lastQ
                 THEN [phase |-> "idle", fresh |-> TRUE, hold |-> FALSE,
                       pre |-> cy.pre, qs |-> cy.qs, probe |-> cy.probe]
                 ELSE IF lastOfQ
                 THEN [cy EXCEPT !.p = @ + 1, !.k = 1, !.ev = EmptyFn, !.tr = EmptyFn]
                 ELSE [cy EXCEPT !.k = @ + 1, !.ev = x1.ev, !.tr = x1.tr]
  /\ UNCHANGED n

MaxIdentity == 3

Next ==
  \/ \E a \in AppIds, p \in ProfIds : Submit(a, p)
  \/ \E a \in AppNames(st) : RemoveApp(a)
  \/ \E a \in AppNames(st) : Blacklist(a)
  \/ \E a \in AppNames(st) : Unblacklist(a)
  \/ \E a \in AppNames(st) : MarkUnschedule(a)
  \/ \E a \in AppNames(st) : Renew(a)
  \/ \E a \in AppNames(st), p \in Prios : SetPrio(a, p)
  \/ \E a \in AppNames(st), x \in DOMAIN Allocs : Move(a, x)
  \/ \E s \in SrvNames(st) : Down(s)
  \/ \E s \in SrvNames(st) : Up(s)
  \/ \E s \in SrvNames(st) : Freeze(s)
  \/ \E s \in SrvNames(st) : RemoveServer(s)
  \/ \E s \in AllServers, p \in DOMAIN SProfiles : AddServer(s, p)
  \/ \E s \in SrvNames(st), v \in {SProfiles[p].vu : p \in DOMAIN SProfiles} : SetVu(s, v)
  \/ \E g \in DOMAIN GroupsInit : DelGroup(g)
  \/ \E g \in DOMAIN GroupsInit, c \in Counts : SetCount(g, c)
  \/ \E d \in Ticks : Tick(d)
  \/ Cycle
  \/ \E s \in AllServers \cup {NoServer}, id \in (0..MaxIdentity) \cup {NoNum} : Step(s, id)

Spec == Init /\ [][Next]_vars

-----------------------------------------------------------------------------
(* the listed properties, evaluated where the statements put them: in the   *)
(* state right after a completed cycle                                      *)
Fresh == cy.phase = "idle" /\ cy.fresh
FlatQ == LET RECURSIVE Fl(_) Fl(qs) == IF qs = <<>> THEN <<>> ELSE Head(qs) \o Fl(Tail(qs))
         IN Fl(cy.qs)
PlacementTuples ==
  LET names == SetToSeq(AppNames(cy.pre) \cap AppNames(st)) IN
  [j \in DOMAIN names |-> <<names[j], cy.pre.apps[names[j]].server, cy.pre.apps[names[j]].expiry,
                            st.apps[names[j]].server, st.apps[names[j]].expiry>>]

InvC01 == Fresh => C01cap(st) /\ C01free(st) /\ C01single(st) /\ C01views(st)
InvC03 == Fresh => /\ C03post(st) /\ C03assign(st, PlacementTuples) /\ C03renew(st, PlacementTuples)
                   /\ C03leaseEnd(st, PlacementTuples)
InvC04 == Fresh => C04limit(st) /\ C04counters(st)
InvC05 == Fresh => C05unique(st) /\ C05range(st) /\ C05placedHas(st) /\ C05pendingNone(st)
                   /\ C05avail(st)
(* beyond the listed properties: the wake-up time the cell reports is the     *)
(* earliest pending retention expiry, and it lies in the future              *)
InvNextEvent == Fresh => (st.nea = NoNum \/ st.nea > st.clock)
InvC02 == (Fresh /\ cy.probe # "") => C02probe(cy.pre, st, FlatQ, cy.probe)
InvC06 == Fresh => /\ C06perm(cy.pre, cy.qs)
                   /\ \A k \in DOMAIN cy.qs :
                        /\ C06rank(cy.qs[k]) /\ C06prio(cy.pre, cy.qs[k])
                        /\ C06zeroLast(cy.pre, cy.qs[k]) /\ C06boost(cy.pre, cy.qs[k])
                        /\ C06cap(cy.pre, cy.qs[k], st) /\ C06capOnly(cy.pre, cy.qs[k])
InvC07 == Fresh => C07justified(cy.pre, st, FlatQ)
InvC08 == Fresh => /\ C08keep(cy.pre, st, FlatQ, EmptyFn) /\ C08expire(cy.pre, st, EmptyFn)
                   /\ C08frozenKeep(cy.pre, st, FlatQ) /\ C08frozenNoNew(cy.pre, st)
                   /\ C08blacklist(st)
(* structural sanity in EVERY state, also inside a cycle *)
InvViews == C01single(st) /\ C01views(st) /\ C04counters(st)
=============================================================================
