INIT Init
NEXT Next
CHECK_DEADLOCK FALSE
CONSTANTS
 Racks <- McRacks
 Servers <- McServers
 RackOf <- McRackOf
 Dims <- McDims
 MaxCap = 2

INVARIANT Sound
