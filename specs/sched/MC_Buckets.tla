---- MODULE MC_Buckets ----
EXTENDS Buckets
McRacks == {"r1", "r2"}
McServers == {"s1", "s2", "s3"}
McRackOf == ("s1" :> "r1" @@ "s2" :> "r1" @@ "s3" :> "r2")
McDims == {1, 2}
====
