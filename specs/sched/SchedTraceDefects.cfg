SPECIFICATION Spec
CONSTANT Defects = {"shape_no_traits", "no_partition_fix", "evict_no_ancestors", "identity_kept_on_skip", "adjust_xor"}
CHECK_DEADLOCK FALSE
