INIT Init
NEXT Next
CHECK_DEADLOCK FALSE
CONSTANTS
 Srv <- McSrv
 MaxSteps = 4
INVARIANT InvHorizon
INVARIANT InvAddOk
