#!/venv/bin/python
"""tools_sweep.py <seed_from> <seed_to> [--tier quick] [ids...]: run every check for every
seed on the unchanged tree; prints one line per (check, seed); any exit != 0 is a problem."""
import json, os, subprocess, sys, time
HERE = os.path.dirname(os.path.abspath(__file__))
args = [a for a in sys.argv[1:] if not a.startswith('--')]
tier = 'thorough' if '--thorough' in sys.argv else 'quick'
lo, hi = int(args[0]), int(args[1])
ids = args[2:] or [c['property_id'] for c in json.load(open(os.path.join(HERE, 'MANIFEST.json')))['checks']]
bad = 0
for seed in range(lo, hi + 1):
    for pid in ids:
        t0 = time.time()
        env = dict(os.environ, VERIF_SEED=str(seed))
        r = subprocess.run(['./check', pid, '--tier', tier], cwd=HERE, env=env, stdout=subprocess.PIPE, stderr=subprocess.STDOUT)
        out = r.stdout.decode()
        tag = 'ok' if r.returncode == 0 else 'EXIT %d' % r.returncode
        print('%s seed=%d %s %.0fs' % (pid, seed, tag, time.time() - t0), flush=True)
        if r.returncode:
            bad += 1
            print('\n'.join(l for l in out.splitlines() if 'VIOLATION' in l or 'clause=' in l or 'MACHINERY' in l or 'Error' in l)[:3000], flush=True)
print('DONE bad=%d' % bad)
