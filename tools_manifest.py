#!/venv/bin/python
"""Regenerates MANIFEST.json from the table below (single place to edit)."""
import json, os
HERE = os.path.dirname(os.path.abspath(__file__))
BASE = ("cd /repo && /venv/bin/python -m pytest -ra -q -p no:cacheprovider --timeout=900 "
        "--continue-on-collection-errors")
SCHED_NOTE = ("Trusted: TLC 1.8, the projection in harness/sched_l1.py (reads the real objects' fields), "
              "the virtual clock. Exhaustive only for the stated small constants; beyond them sampled "
              "histories judged by the trace spec.")
CHECKS = {
 'C01': ('model_checking', "Sched.tla model-checked exhaustively (3 servers/2 racks, 5 instance slots, 2 dims, <=3-4 events, 2 cycles); TLC-generated and random histories replayed on the real scheduler.Cell; every recorded step judged by SchedTrace.tla (capacity, stored free capacity, single placement, both views) and required to be a step of the cycle model.", '6/C01', SCHED_NOTE),
 'C03': ('model_checking', "Sched.tla invariants on every assignment and after every cycle (partition, traits, server state, lease lifetime incl. renewals and re-assignment across partitions); recorded traces of the real Cell judged by the same clauses.", '6/C03', SCHED_NOTE),
 'C04': ('model_checking', "Sched.tla with rack/pod/cell limits under eviction pressure model-checked; affinity limits and stored counters recomputed by TLC from the leaves on every recorded post-cycle state of the real Cell.", '6/C04', SCHED_NOTE),
 'C05': ('model_checking', "Sched.tla identity invariants (unique, in range, placed has one, pending none, available set exact) model-checked over grow/shrink/delete/blacklist/eviction histories and judged on every recorded post-cycle state.", '6/C05', SCHED_NOTE),
 'C07': ('model_checking', "Sched.tla: displacement of an entitled running instance needs a gainer strictly ahead in the captured queue; model-checked with all queue interleavings, and judged on (pre, captured queue, post) of every recorded cycle, incl. focused histories with a pending lease renewal on a server that is frozen before the cycle serves it.", '6/C07', SCHED_NOTE),
 'C08': ('model_checking', "Sched.tla with a clock: retention keep/expire, frozen keep/no-new, blacklist, for every ordering of down-since, timeout and cycle time within the bounds; same clauses on recorded cycles of the real Cell and of the real Master (L2: presence-driven transitions, server-state events, the state record published in /placement/<server> = C08.stateRecord). Down-times and unschedule marks are the observer's, not the code's fields.", '6/C08', SCHED_NOTE),
}
MASTER_NOTE = ("Trusted: TLC 1.8, harness/zkfake.py (kazoo-shaped in-memory ZooKeeper), the projections in harness/master_l2.py. "
               "Master.tla abstracts the scheduler to 'any legal placement' and is exhaustive for 2 servers / 2 instances; "
               "the real Master/loader/ZkBackend run un-abstracted in the replay.")
CHECKS.update({
 'C09': ('model_checking', "Master.tla (every storage write one step; reschedule, init_schedule, remove_app, restore_placements, integrity check) model-checked; ZooKeeper-level histories through the real masterapi producers replayed on the real Master over an in-memory ZooKeeper; full /placement dump compared with Master.cell by MasterTrace.tla after every cycle and start-up (existence, no extras, identity, expiry). MasterLag.tla adds watch latency (deliveries as separate steps, cycles on a stale view, servers deleted/re-created under /placement): once everything is delivered and a publication completed store = model (InvSettled); its behaviours are replayed and every recorded step re-computed by MasterLagTrace.tla.", '6/C09', MASTER_NOTE),
 'C10': ('model_checking', "Master.tla with Crash enabled between any two storage writes of reschedule, load_model and init_schedule: no instance under two servers in ANY state, restart never trips the integrity check, placement = model after restart. On the code: an exception injected at the k-th storage write (sampled k in quick, every k in thorough), stored state examined at the cut, new Master started on it. MasterLag.tla (watch latency: the master publishes on a view that lags the store while administrators delete/re-create servers) is model-checked for the same invariants in every state and bound by stale-cycle histories with cuts on the real Master.", '6/C10', MASTER_NOTE, 'TLA+ spec model-checked with TLC (crash between any two writes) + fault enumeration of every storage write on the real Master + TLC trace validation'),
 'C11': ('model_checking', "Master.tla LoadModel action property; on the code the model right after load_model() is compared with the store as it was before the restart: every instance recorded under a healthy server is placed there with recorded identity and expiry, nothing unrecorded is placed.", '6/C11', MASTER_NOTE),
})
CHECKS.update({
 'C02': ('model_checking', "Two specifications: Buckets.tla (the incremental free-capacity aggregates of racks/cell under add/remove/state/put/remove, pruning soundness model-checked exhaustively) and Sched.tla with a probe history variable (quiescent cell, one new instance, leaf-scan oracle). On the code: the recorded bucket aggregates are checked against the leaves on every step, and probe histories (quiesce, submit, cycle) on the real Cell are judged by the leaf-scan clause.", '6/C02', SCHED_NOTE),
 'C06': ('model_checking', "The queue functions are part of Sched.tla (per-allocation priority order, exact rank/boost/cap arithmetic, every legal interleaving of equal-rank allocations); invariants over all legal queues. On the code the queue is captured at Cell._find_placements (with each instance's placed flag at that moment) for nested allocation trees incl. randomly generated ones, and judged by six clauses (permutation, rank order, priority order, priority-0 last, boost, cap).", '6/C06', SCHED_NOTE + ' Float utilisation order of equal-rank instances of different allocations is not judged.'),
})
EXTRA = json.load(open(os.path.join(HERE, 'manifest_extra.json'))) if os.path.exists(os.path.join(HERE, 'manifest_extra.json')) else {}
for _pid, _e in EXTRA.items():
    CHECKS[_pid] = (_e['category'], _e['text'], _e.get('ref') or '6/' + _pid, _e['note']) + ((_e['technique'],) if _e.get('technique') else ())
NA = {}
ALL = ['C%02d' % i for i in range(1, 21)]
def main():
    checks = []
    for pid in ALL:
        if pid not in CHECKS:
            continue
        cat, text, ref, note = CHECKS[pid][:4]
        tech = CHECKS[pid][4] if len(CHECKS[pid]) > 4 else 'TLA+ spec model-checked with TLC + TLC-generated histories replayed on the code + TLC trace validation of recorded executions'
        checks.append(dict(property_id=pid, quick_cmd='./check %s --tier quick' % pid,
                           thorough_cmd='./check %s --tier thorough' % pid,
                           evidence_file='/verif/evidence/%s.json' % pid,
                           replay_cmd_template='./check %s --replay {path}' % pid,
                           engine='tlc-conformance', level_claimed=dict(category=cat, text=text, design_ref=ref),
                           level_note=note, technique=tech))
    na = [dict(property_id=p, reason=NA.get(p, 'check not built yet in this round; see DESIGN.md section 6 for the planned specification')) for p in ALL if p not in CHECKS]
    m = dict(version=1, setup_cmd='cd /verif && ./setup.sh',
             hooks=dict(guard='TREADMILL_VERIF', enable='no hooks in /repo: the harness patches from outside (DESIGN.md 2.5)',
                        baseline_off_cmd=BASE, source_commits=[], add_only=True),
             engines=[dict(name='tlc-conformance', path='/verif/check', serves_properties=[c['property_id'] for c in checks],
                           kind_free_text='explicit TLA+ specifications checked with TLC; histories generated by TLC replayed on the real code; recorded traces validated by TLC against the same specifications')],
             checks=checks, not_applicable=na,
             notes='See DESIGN.md (section 10 = as built). ./check <ID> [--tier quick|thorough] [--replay f] [--selftest]; exit 0 held (KNOWN-FINDING lines possible), 1 VIOLATION, 2 machinery failure. Seeds: VERIF_SEED. /repo carries 19 fix: commits (KNOWN_FINDINGS.json lists them with their replays under replays/); one open known finding (C17.newerKept:olderAfterNewer). seeded/ = 234 independently authored breaking changes with results (seeded/README.md), benign/ = 43 behaviour-preserving changes that must stay quiet; tools_seeded.py eval <dir> re-evaluates one on a scratch copy. tools_sweep.py / tools_soak.py / tools_soak_l1.py: sweeps and harness soaks on the unchanged tree. Thorough tier wall times on a loaded 16-core box: 1.5-28 min per property (C02/C06/C20 the longest).')
    json.dump(m, open(os.path.join(HERE, 'MANIFEST.json'), 'w'), indent=1)
main()
