#!/venv/bin/python
"""Evaluate seeded changes (/verif/seeded/<id>/patch.diff) against the checks.

  tools_seeded.py eval <seeded dir> [--props C07,C01] [--tier quick] [--baseline] [--demo]
  tools_seeded.py all [--tier quick]           every seeded/<id> against its own property

A scratch worktree of /repo HEAD is created under /tmp, the patch applied there,
the checks run with VERIF_REPO=<worktree>, and the worktree removed. /repo itself
is never modified.  Results are appended to seeded/<id>/results.json.
"""
import argparse
import json
import os
import subprocess
import sys
import tempfile
import time

HERE = os.path.dirname(os.path.abspath(__file__))


def sh(cmd, **kw):
    return subprocess.run(cmd, shell=True, stdout=subprocess.PIPE, stderr=subprocess.STDOUT, **kw)


def evaluate(sdir, props, tier, baseline, demo):
    sdir = os.path.abspath(sdir)
    meta = json.load(open(os.path.join(sdir, 'meta.json')))
    props = props or [meta['property']]
    wt = tempfile.mkdtemp(prefix='seedwt-', dir='/tmp')
    os.rmdir(wt)
    res = dict(when=time.strftime('%Y-%m-%d %H:%M'), tier=tier, checks={})
    try:
        r = sh('git -C /repo worktree add -f %s HEAD' % wt)
        if r.returncode:
            print(r.stdout.decode())
            return None
        r = sh('git -C %s apply %s' % (wt, os.path.join(sdir, 'patch.diff')))
        if r.returncode:
            print('PATCH DOES NOT APPLY', r.stdout.decode())
            res['applies'] = False
            return res
        res['applies'] = True
        if baseline:
            r = sh('%s/tools_baseline.py %s' % (HERE, wt))
            res['baseline'] = r.stdout.decode().strip().splitlines()[0]
            print('  baseline:', res['baseline'])
        demo_py = os.path.join(sdir, 'demo.py')
        if demo and os.path.exists(demo_py):
            r = sh('cd %s && PYTHONPATH=lib/python /venv/bin/python %s' % (wt, demo_py), timeout=300)
            res['demo_mutant_exit'] = r.returncode
            r = sh('cd /repo && PYTHONPATH=lib/python /venv/bin/python %s' % demo_py, timeout=300)
            res['demo_clean_exit'] = r.returncode
            print('  demo: mutant exit %s, clean exit %s' % (res['demo_mutant_exit'], res['demo_clean_exit']))
        for p in props:
            t0 = time.time()
            env = dict(os.environ, VERIF_REPO=wt)
            r = sh('cd %s && ./check %s --tier %s' % (HERE, p, tier), env=env)
            out = r.stdout.decode()
            viol = [l for l in out.splitlines() if l.startswith('VIOLATION') or l.startswith('  clause=')]
            res['checks'][p] = dict(exit=r.returncode, wall_s=round(time.time() - t0, 1), lines=viol[:6])
            print('  check %s (%s): exit %d in %.0fs %s' % (p, tier, r.returncode, time.time() - t0,
                                                          viol[1].strip() if len(viol) > 1 else ''))
            if r.returncode == 2:
                print(out[-1500:])
    finally:
        sh('git -C /repo worktree remove --force %s' % wt)
    path = os.path.join(sdir, 'results.json')
    hist = json.load(open(path)) if os.path.exists(path) else []
    hist.append(res)
    json.dump(hist, open(path, 'w'), indent=1)
    return res


def main():
    ap = argparse.ArgumentParser()
    ap.add_argument('cmd', choices=['eval', 'all'])
    ap.add_argument('dir', nargs='?')
    ap.add_argument('--props')
    ap.add_argument('--tier', default='quick')
    ap.add_argument('--baseline', action='store_true')
    ap.add_argument('--demo', action='store_true')
    a = ap.parse_args()
    if a.cmd == 'eval':
        print(a.dir)
        evaluate(a.dir, a.props.split(',') if a.props else None, a.tier, a.baseline, a.demo)
    else:
        root = os.path.join(HERE, 'seeded')
        summary = []
        for d in sorted(os.listdir(root)):
            sdir = os.path.join(root, d)
            if not os.path.exists(os.path.join(sdir, 'patch.diff')):
                continue
            print(d)
            r = evaluate(sdir, None, a.tier, a.baseline, a.demo)
            if r:
                summary.append((d, {p: c['exit'] for p, c in r['checks'].items()}))
        print('\nSUMMARY')
        for d, c in summary:
            print('  %-28s %s' % (d, c))


if __name__ == '__main__':
    sys.exit(main())
