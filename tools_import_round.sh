#!/bin/sh
# tools_import_round.sh <out-dir>...: copy finished seeded changes (patch.diff + demo.py + meta.json) of a round's
# authors into seeded/ (skipping those already imported) and evaluate each: baseline suite, demo both ways, own check.
cd /verif
for out in "$@"; do
  for d in "$out"/C*; do
    [ -f "$d/meta.json" ] && [ -f "$d/patch.diff" ] && [ -f "$d/demo.py" ] || continue
    id=$(basename "$d")
    [ -d "seeded/$id" ] && continue
    mkdir -p "seeded/$id"
    cp "$d/patch.diff" "$d/demo.py" "$d/meta.json" "seeded/$id/"
    ./tools_seeded.py eval "seeded/$id" --baseline --demo
  done
done
