#!/bin/sh
# tools_import_round.sh <out-dir>...: copy finished seeded changes (patch.diff + demo.py + meta.json) of a round's
# authors into seeded/ (skipping those already imported) and evaluate each (4 at a time): baseline suite, demo both
# ways, own check.
cd /verif
new=""
for out in "$@"; do
  for d in "$out"/C*; do
    [ -f "$d/meta.json" ] && [ -f "$d/patch.diff" ] && [ -f "$d/demo.py" ] || continue
    id=$(basename "$d")
    [ -d "seeded/$id" ] && continue
    mkdir -p "seeded/$id"
    cp "$d/patch.diff" "$d/demo.py" "$d/meta.json" "seeded/$id/"
    new="$new seeded/$id"
  done
done
[ -n "$new" ] && printf '%s\n' $new | xargs -P 4 -I{} sh -c './tools_seeded.py eval {} --baseline --demo 2>&1 | grep -v WARNING'
