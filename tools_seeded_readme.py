#!/venv/bin/python
"""Regenerates seeded/README.md from seeded/*/meta.json and results.json."""
import glob, json, os
HERE = os.path.dirname(os.path.abspath(__file__))
NOTES = {
 'C06-r2b-m1': 'outside the statement: only the float utilisation order of equal-rank instances of DIFFERENT allocations changes (not judged, DESIGN 6/C06)',
 'C01-r4a-m1': 'unreachable: needs a stored state with an instance under two KNOWN servers, which the repaired master cannot produce (two-pass publication, ghosts removed at start-up)',
 'C14-r4d-m7': 'outside the quantifier: needs an injected EIO from os.stat (C14 ranges over allocate/release/collect sequences)',
 'C14-r8b-m4': 'outside the quantifier: needs two VipMgr pools with different networks sharing ONE vips directory (C14 ranges over the operations of owners on one pool; the network service creates one manager per directory)',
 'C14-r9d-m4': 'outside the quantifier: like C14-r8b-m4 it needs two address pools with different networks sharing one vips directory',
 'C01-r9a-m5': 'unreachable: the stale entry whose removal no longer frees capacity exists only on a server object outside the cell (or for an instance recorded under two known servers at start-up, which the repaired master cannot produce)',
 'C05-r9d-m2': 'a C10 violation rather than a C05 one: the new master dies of its own assertion at start-up, so no cycle completes for C05 to be judged after; ./check C10 reports C10.restartOk for it',
 'C01-r10a-m1': 'unreachable: needs an instance recorded under two known servers at start-up (see C01-r4a-m1)',
 'C18-r10d-m3': 'outside the statement: the archived events stay retrievable from their snapshots (download_batch, the mechanism C18 names); only the AppTraceLoop reader stops early - readers are modelled as an extension (ext.archive.readLoop, DRIFT class)',
 'C08-r10b-m3': 'outside the quantifier: needs the data retention timeout of an ALREADY scheduled manifest to be rewritten, for which the master API has no producer (update_app_priorities rewrites the priority only)',
 'C05-r10a-m2': 'not caught: members of an identity group that was deleted and re-created stay pending for ever although identities are free; no clause states that a PENDING member must get a free identity outside the probe situation of C02',
 'C07-r6a-m4': 'outside the statement: only the rank of the ONE instance that straddles the end of its reservation changes - C06 fixes the boosted rank for instances that stay within the reservation, and in the changed queue the evicting instance is ahead of the displaced one',
 'C08-r6b-m5': 'outside the statement: C08 says a frozen server keeps its instances EXCEPT those marked for unscheduling; it does not say a marked instance must go (the author of the change notes the same)',
}
rows = []
for d in sorted(glob.glob(os.path.join(HERE, 'seeded', '*', ''))):
    name = os.path.basename(d.rstrip('/'))
    if not os.path.exists(d + 'meta.json'):
        continue
    meta = json.load(open(d + 'meta.json'))
    res = json.load(open(d + 'results.json')) if os.path.exists(d + 'results.json') else []
    runs = []
    for r in res:
        for p, c in r.get('checks', {}).items():
            clause = ''
            for l in c.get('lines', []):
                if 'clause=' in l:
                    clause = l.strip().split(' ')[0].replace('clause=', '')
                    break
            runs.append((c['exit'], clause))
    def show(x):
        if x is None:
            return '-'
        return {1: 'caught ' + x[1], 0: 'MISSED', 2: 'machinery failure'}.get(x[0], str(x[0]))
    rnd = 'round 1' if '-adv-' in name else 'round ' + name.split('-r')[1][0]
    rows.append((name, meta.get('property'), rnd, (meta.get('summary') or '')[:140].replace('|', '/').replace('\n', ' '),
                 show(runs[0] if runs else None), show(runs[-1] if runs else None), NOTES.get(name, '')))
out = ['# Seeded changes (independently authored) and the checks that catch them', '',
       'Each directory: `patch.diff` (applies to /repo HEAD), `demo.py` (exit 1 with the change, 0 without), `meta.json` (the author\'s description), `results.json` (every evaluation by `tools_seeded.py`: baseline comparison, demo exits, check exit code and clause).',
       'Authors saw only the property text and a scratch worktree. All changes keep the 729 baseline tests passing.',
       '"first" = quick check the first time the change was evaluated, "now" = latest evaluation. A change missed at first led to a strengthening of the check (DESIGN.md 10.5) - more/focused histories, observer state, a wider scenario - never to a stronger or weaker clause than the statement.', '',
       '| id | property | round | change | first quick run | now | note |', '|---|---|---|---|---|---|---|']
for r in rows:
    out.append('| %s | %s | %s | %s | %s | %s | %s |' % r)
n = len(rows)
first = sum(1 for r in rows if r[4].startswith('caught'))
now = sum(1 for r in rows if r[5].startswith('caught'))
out += ['', '%d changes; caught by the quick tier at first evaluation: %d; now: %d.' % (n, first, now)]
open(os.path.join(HERE, 'seeded', 'README.md'), 'w').write('\n'.join(out) + '\n')
print(out[-1])
