#!/venv/bin/python
"""Regenerates seeded/README.md from seeded/*/meta.json and results.json."""
import glob, json, os
HERE = os.path.dirname(os.path.abspath(__file__))
NOTES = {
 'C06-r2b-m1': 'outside the statement: only the float utilisation order of equal-rank instances of DIFFERENT allocations changes (not judged, DESIGN 6/C06)',
}
rows = []
for d in sorted(glob.glob(os.path.join(HERE, 'seeded', '*', ''))):
    name = os.path.basename(d.rstrip('/'))
    if not os.path.exists(d + 'meta.json'):
        continue
    meta = json.load(open(d + 'meta.json'))
    res = json.load(open(d + 'results.json')) if os.path.exists(d + 'results.json') else []
    runs = []
    for r in res:
        for p, c in r.get('checks', {}).items():
            clause = ''
            for l in c.get('lines', []):
                if 'clause=' in l:
                    clause = l.strip().split(' ')[0].replace('clause=', '')
                    break
            runs.append((c['exit'], clause))
    def show(x):
        if x is None:
            return '-'
        return {1: 'caught ' + x[1], 0: 'MISSED', 2: 'machinery failure'}.get(x[0], str(x[0]))
    rnd = 'round 1' if '-adv-' in name else 'round ' + name.split('-r')[1][0]
    rows.append((name, meta.get('property'), rnd, (meta.get('summary') or '')[:140].replace('|', '/').replace('\n', ' '),
                 show(runs[0] if runs else None), show(runs[-1] if runs else None), NOTES.get(name, '')))
out = ['# Seeded changes (independently authored) and the checks that catch them', '',
       'Each directory: `patch.diff` (applies to /repo HEAD), `demo.py` (exit 1 with the change, 0 without), `meta.json` (the author\'s description), `results.json` (every evaluation by `tools_seeded.py`: baseline comparison, demo exits, check exit code and clause).',
       'Authors saw only the property text and a scratch worktree. All changes keep the 729 baseline tests passing.',
       '"first" = quick check the first time the change was evaluated, "now" = latest evaluation. A change missed at first led to a strengthening of the check (DESIGN.md 10.5) - more/focused histories, observer state, a wider scenario - never to a stronger or weaker clause than the statement.', '',
       '| id | property | round | change | first quick run | now | note |', '|---|---|---|---|---|---|---|']
for r in rows:
    out.append('| %s | %s | %s | %s | %s | %s | %s |' % r)
n = len(rows)
first = sum(1 for r in rows if r[4].startswith('caught'))
now = sum(1 for r in rows if r[5].startswith('caught'))
out += ['', '%d changes; caught by the quick tier at first evaluation: %d; now: %d.' % (n, first, now)]
open(os.path.join(HERE, 'seeded', 'README.md'), 'w').write('\n'.join(out) + '\n')
print(out[-1])
