import sys
sys.path.insert(0,'/verif')
from harness import tlc
from harness.props import c12
RD=['InvRdyRule','InvRdyFirstSync','InvRdyWatch','InvRdyNoExtra','InvRdyWd']
def run(name, inv, **b):
    mod,cfg,files=c12.mc_files(name, insts=['i1','i2'], mvers=[1], pvers=[1], prior=[(1,1)], newflags=[True], bounds=b, invariants=inv)
    r=tlc.mc(c12.SPEC_DIR, mod, cfg, extra_files=files, coverage=(name=='ready'), timeout=400)
    print(name, r['generated'], r['distinct'], r['wall_s'], r['violated'], [a+'('+x+')' for a,x in r['cex']] if r['violated'] else '', {k:v[1] for k,v in r['coverage'].items() if k in ('LiveStart','CacheNotify','ZkExists','Sleep','Heartbeat','PresenceAppears','PresenceDisappears','PlacementAppears','PlacementDisappears','SyncBegin')})
    if not r['ok'] and not r['violated']: print(r['out'][-2500:])
run('ready', c12.INVARIANTS+RD, rd=2, hb=2, env=1, crash=1, sync=4, setup=4)
run('ideal1', ['InvReadyIdeal'], rd=2, hb=2, env=1, sync=4, setup=4)
run('ideal2', ['InvFollowsIdeal'], rd=2, hb=2, env=2, sync=4, setup=4)
