#!/venv/bin/python
"""Runs the repository's baseline suite on a tree (default /repo) and compares
the set of passing tests with BASELINE.json's stable_pass."""
import json, subprocess, sys, tempfile, os
import xml.etree.ElementTree as ET
tree = sys.argv[1] if len(sys.argv) > 1 else '/repo'
base = json.load(open('/root/.vp/BASELINE.json'))
fd, path = tempfile.mkstemp(suffix='.xml'); os.close(fd)
subprocess.run(['/venv/bin/python', '-m', 'pytest', '-ra', '-q', '-p', 'no:cacheprovider', '--timeout=900',
                '--continue-on-collection-errors', '--junitxml=' + path], cwd=tree,
               stdout=subprocess.DEVNULL, stderr=subprocess.DEVNULL)
passed = set()
for tc in ET.parse(path).getroot().iter('testcase'):
    if not any(ch.tag in ('failure', 'error', 'skipped') for ch in tc):
        passed.add('%s::%s' % (tc.get('classname'), tc.get('name')))
os.unlink(path)
want = set(base['stable_pass'])
missing = sorted(want - passed)
print('stable_pass %d, passed now %d, missing %d, extra %d' % (len(want), len(passed), len(missing), len(passed - want)))
for m in missing[:20]:
    print('  MISSING', m)
sys.exit(1 if missing else 0)
