#!/venv/bin/python
"""tools_soak.py <seed_from> <seed_to> [n]: soak test of the L2 harness on the UNCHANGED tree.
For every seed, master-level histories from every generator are recorded on the real
Master and judged by SchedTrace.tla AND MasterTrace.tla; ANY property clause that fails
(whatever property it belongs to) is printed with a replay file.  On the unchanged tree
every line printed here is either a harness artefact or a genuine defect - both need
attention before a thorough run can be trusted."""
import collections, json, os, random, sys
os.environ.setdefault('PYTHONHASHSEED', '0')
if os.environ.get('PYTHONHASHSEED') != '0' or not os.environ.get('_VERIF_REEXEC'):
    os.environ['PYTHONHASHSEED'] = '0'
    os.environ['_VERIF_REEXEC'] = '1'
    os.execv(sys.executable, [sys.executable] + sys.argv)
HERE = os.path.dirname(os.path.abspath(__file__))
sys.path.insert(0, HERE)
from harness import core, tlc  # noqa: E402
core.ensure_repo_on_path()
from harness import master_common as mcm, master_l2, master_check as mk, sched_common as sc  # noqa: E402

lo, hi = int(sys.argv[1]), int(sys.argv[2])
n = int(sys.argv[3]) if len(sys.argv) > 3 else 400
bad = 0
for seed in range(lo, hi + 1):
    rng = random.Random(seed * 7907 + 13)
    scn = mcm.SCENARIOS['base']
    hists = []
    for _ in range(n):
        hists.append(('rnd', mcm.gen_random(scn, rng, rng.choice([8, 12, 16, 24]))))
        hists.append(('rnd-topo', mcm.gen_random(scn, rng, rng.choice([8, 12, 16]), topology=True)))
    for _ in range(n // 2):
        hists.append(('servers', mcm.gen_servers(scn, rng, rng.choice([5, 8, 12]))))
        hists.append(('identity', mcm.gen_identity(scn, rng, rng.choice([4, 6, 9]))))
        hists.append(('allocs', mcm.gen_allocs(scn, rng, rng.choice([2, 4, 6]))))
        hists.append(('defer', mcm.gen_defer(scn, rng)))
        hists.append(('pending', mcm.gen_pending(scn, rng, rng.choice([6, 10]))))
        hists.append(('stale', mk.gen_stale(scn, rng)))
    raw = mcm.record('base', [h for _, h in hists])
    for (src, _), t in zip(hists, raw):
        t['src'] = src
    # scheduler clauses (topology histories excluded: outside their quantifier)
    segs = []
    for t in raw:
        if t['src'] in ('rnd-topo', 'stale'):
            continue
        for seg in master_l2.sched_segments('l2-' + t['tid'], t['lines']):
            seg['history'] = t['history']
            seg['src'] = t['src']
            segs.append(seg)
    fails = collections.Counter()
    first = {}
    ctx = core.Ctx('SOAK', 'thorough', seed)
    verdicts, _, unjudged = core.validate_robust(lambda ts: sc.validate(ts, timeout=3000), segs, ctx)
    by = {t['tid']: t for t in segs}
    for v in verdicts:
        for f in v['fail']:
            if f[0] == 'C' and f[3] == '.':
                fails[f] += 1
                if f not in first:
                    t = by[v['tid']]
                    first[f] = dict(kind='sched_l2', property=f[:3], clause=f, scenario='l2-base',
                                    history=t['history'][:t['lines'][v['i']].get('h', v['i'])],
                                    failed_step=v['i'], src=t['src'])
    v2, _ = mcm.validate(raw)
    by2 = {t['tid']: t for t in raw}
    for v in v2:
        for f in v['fail']:
            if f[0] == 'C' and f[3] == '.':
                fails['M:' + f] += 1
                if 'M:' + f not in first:
                    t = by2[v['tid']]
                    first['M:' + f] = dict(kind='master_l2', property=f[:3], clause=f, scenario='base',
                                           history=t['history'][:v['i']], failed_step=v['i'], src=t['src'])
    print('seed %d: %d histories, %d sched lines, %d master lines, unjudged %d, failing clauses: %s'
          % (seed, len(raw), len(verdicts), len(v2), len(unjudged), dict(fails) or 'none'), flush=True)
    for f, p in first.items():
        bad += 1
        path = '/tmp/soak-%d-%s.json' % (seed, f.replace(':', '_'))
        json.dump(p, open(path, 'w'))
        print('  %s first at %s (%s): %s' % (f, path, p['src'], p['history']), flush=True)
print('DONE bad=%d' % bad)
